/-
Lean 4 / Mathlib proofs of the arithmetic lemma schemas of pyvc/theory.py (the bit-wise schemas are not covered here; see DESIGN.md A.7).
`pow2 k` of the schemas is `(2:ℤ)^k` for a natural exponent (every schema guards `k ≥ 0`); `divp x k`, `modp x k`, `mulp x k` are
`x / 2^k`, `x % 2^k` (Python's floor division and modulo agree with Lean's `Int` `/` and `%` for a positive divisor) and `x * 2^k`.
Check:  cd /verif/lemmas && lean Lemmas.lean      (no output = every theorem checked)
-/
import Mathlib

namespace PyvcLemmas

theorem pw_pos (k : ℕ) : (1:ℤ) ≤ 2^k ∧ (k:ℤ) + 1 ≤ 2^k := by
  constructor
  · exact_mod_cast Nat.one_le_two_pow
  · have h := Nat.lt_two_pow_self (n := k)
    exact_mod_cast h

theorem pw_succ (j : ℕ) : (2:ℤ)^(j+1) = 2 * 2^j := by ring

theorem pw_add (i j : ℕ) : (2:ℤ)^(i+j) = 2^i * 2^j := pow_add 2 i j

theorem pw_mono (j k : ℕ) (h : j < k) : (2:ℤ) * 2^j ≤ 2^k := by
  have h1 : (2:ℤ)^(j+1) ≤ 2^k := pow_le_pow_right₀ (by norm_num) h
  calc (2:ℤ) * 2^j = 2^(j+1) := by ring
    _ ≤ 2^k := h1

theorem pw_two_pos (k : ℕ) : (0:ℤ) < 2^k := by positivity

theorem mod_small (x : ℤ) (k : ℕ) (h0 : 0 ≤ x) (h1 : x < 2^k) : x % 2^k = x ∧ x / 2^k = 0 :=
  ⟨Int.emod_eq_of_lt h0 h1, Int.ediv_eq_zero_of_lt h0 h1⟩

theorem divmod (x : ℤ) (k : ℕ) : x = (x / 2^k) * 2^k + x % 2^k ∧ 0 ≤ x % 2^k ∧ x % 2^k < 2^k := by
  have hp : (0:ℤ) < 2^k := by positivity
  refine ⟨?_, Int.emod_nonneg x (ne_of_gt hp), Int.emod_lt_of_pos x hp⟩
  have := Int.ediv_mul_add_emod x (2^k)
  linarith

theorem div_nonneg_le (x : ℤ) (k : ℕ) (h : 0 ≤ x) : 0 ≤ x / 2^k ∧ x / 2^k ≤ x := by
  have hp : (0:ℤ) < 2^k := by positivity
  exact ⟨Int.ediv_nonneg h (le_of_lt hp), Int.ediv_le_self _ h⟩

theorem div_neg (x : ℤ) (k : ℕ) (h : x < 0) : x / 2^k < 0 := by
  have hp : (0:ℤ) < 2^k := by positivity
  exact Int.ediv_neg_of_neg_of_pos h hp

theorem mod_wrap_neg (x : ℤ) (k : ℕ) (h0 : -(2^k) ≤ x) (h1 : x < 0) : x % 2^k = x + 2^k ∧ x / 2^k = -1 := by
  have hp : (0:ℤ) < 2^k := by positivity
  have h := (Int.ediv_emod_unique (a := x) (b := 2^k) (r := x + 2^k) (q := -1) hp).mpr ⟨by ring, by linarith, by linarith⟩
  exact ⟨h.2, h.1⟩

theorem mod_wrap_pos (x : ℤ) (k : ℕ) (h0 : 2^k ≤ x) (h1 : x < 2 * 2^k) : x % 2^k = x - 2^k ∧ x / 2^k = 1 := by
  have hp : (0:ℤ) < 2^k := by positivity
  have h := (Int.ediv_emod_unique (a := x) (b := 2^k) (r := x - 2^k) (q := 1) hp).mpr ⟨by ring, by linarith, by linarith⟩
  exact ⟨h.2, h.1⟩

theorem div_lt (x : ℤ) (j k : ℕ) (h0 : 0 ≤ x) (h1 : x < 2^(j+k)) : x / 2^k < 2^j := by
  have hp : (0:ℤ) < 2^k := by positivity
  rw [Int.ediv_lt_iff_lt_mul hp]
  calc x < 2^(j+k) := h1
    _ = 2^j * 2^k := pow_add 2 j k

theorem div_ge (x : ℤ) (k : ℕ) : (2^k ≤ x) ↔ (1 ≤ x / 2^k) := by
  have hp : (0:ℤ) < 2^k := by positivity
  rw [Int.le_ediv_iff_mul_le hp]; simp

theorem div_div (x : ℤ) (a b : ℕ) : (x / 2^a) / 2^b = x / 2^(a+b) := by
  have hp : (0:ℤ) ≤ 2^a := by positivity
  rw [Int.ediv_ediv_of_nonneg hp, pow_add]

theorem shl_mod (x : ℤ) (j k : ℕ) (h : j ≤ k) : (x * 2^k) % 2^j = 0 := by
  obtain ⟨d, rfl⟩ := Nat.exists_eq_add_of_le h
  have : x * 2^(j+d) = (x * 2^d) * 2^j := by rw [pow_add]; ring
  rw [this]; exact Int.mul_emod_left _ _

theorem shl_div (x : ℤ) (k : ℕ) : (x * 2^k) / 2^k = x := by
  have hp : (2:ℤ)^k ≠ 0 := by positivity
  exact Int.mul_ediv_cancel x hp

theorem cat_range (v u : ℤ) (a k : ℕ) (hv0 : 0 ≤ v) (hv1 : v < 2^a) (hu0 : 0 ≤ u) (hu1 : u < 2^k) :
    0 ≤ v * 2^k + u ∧ v * 2^k + u < 2^(a+k) := by
  have hp : (0:ℤ) < 2^k := by positivity
  constructor
  · positivity
  · have h1 : v + 1 ≤ 2^a := by linarith
    have h2 : (v + 1) * 2^k ≤ 2^a * 2^k := mul_le_mul_of_nonneg_right h1 (le_of_lt hp)
    rw [pow_add]; nlinarith

/-! ### bit-wise schemas, for non-negative operands (natural numbers) -/

theorem comm_and (x y : ℕ) : x &&& y = y &&& x := Nat.and_comm x y
theorem comm_or  (x y : ℕ) : x ||| y = y ||| x := Nat.or_comm x y
theorem comm_xor (x y : ℕ) : x ^^^ y = y ^^^ x := Nat.xor_comm x y

theorem and_mask (x k : ℕ) : x &&& (2^k - 1) = x % 2^k := Nat.and_two_pow_sub_one_eq_mod x k

theorem and_one (x : ℕ) : x &&& 1 = x % 2 := Nat.and_one_is_mod x

theorem and_range (x y : ℕ) : x &&& y ≤ y ∧ x &&& y ≤ x := ⟨Nat.and_le_right, Nat.and_le_left⟩

theorem or_range (x y k : ℕ) (hx : x < 2^k) (hy : y < 2^k) : x ||| y < 2^k := Nat.or_lt_two_pow hx hy

theorem xor_range (x y k : ℕ) (hx : x < 2^k) (hy : y < 2^k) : x ^^^ y < 2^k := Nat.xor_lt_two_pow hx hy

theorem or_lower (x y : ℕ) : x ≤ x ||| y ∧ y ≤ x ||| y := ⟨Nat.left_le_or, Nat.right_le_or⟩

/-- shl-or: `(v << k) | u == (v << k) + u` for `u < 2^k` -/
theorem shl_or (v u k : ℕ) (hu : u < 2^k) : (v * 2^k) ||| u = v * 2^k + u := by
  have := Nat.two_pow_add_eq_or_of_lt hu v
  rw [Nat.mul_comm v (2^k)]; exact this.symm

end PyvcLemmas
