"""C17 bounded stand-in for the cycle-level queues (stdlib/queues/cl_queues.py): method-level FIFO behaviour and same-cycle ready semantics
for every legal order of the enqueueing and dequeueing blocks."""
import sys, random

def run_case(repo,kind,n,order,seed,ncycles=40):
  if repo not in sys.path: sys.path.insert(0,repo)
  from pymtl3 import Component, update_once, U, M, DefaultPassGroup
  from pymtl3.stdlib.queues.cl_queues import NormalQueueCL, PipeQueueCL, BypassQueueCL
  Q={'normal':NormalQueueCL,'pipe':PipeQueueCL,'bypass':BypassQueueCL}[kind]
  rng=random.Random(seed)
  offers=[(rng.random()<0.6,rng.random()<0.6,rng.getrandbits(16)) for _ in range(ncycles)]
  class TB(Component):
    def construct(s):
      s.q=Q(n); s.t=0; s.log=[]
      @update_once
      def up_enq():
        we,wd,msg=offers[s.t] if s.t<len(offers) else (False,False,0)
        if we:
          r=s.q.enq.rdy(); s.log.append(('enq_rdy',s.t,bool(r)))
          if r: s.q.enq(msg); s.log.append(('enq',s.t,msg))
      @update_once
      def up_deq():
        we,wd,msg=offers[s.t] if s.t<len(offers) else (False,False,0)
        if wd:
          r=s.q.deq.rdy(); s.log.append(('deq_rdy',s.t,bool(r)))
          if r: s.log.append(('deq',s.t,s.q.deq()))
      @update_once
      def up_t(): s.t+=1
      s.add_constraints(U(up_enq)<U(up_t),U(up_deq)<U(up_t))
      if order=='enq_first': s.add_constraints(U(up_enq)<U(up_deq))
      elif order=='deq_first': s.add_constraints(U(up_deq)<U(up_enq))
    def line_trace(s): return ""
  tb=TB(); tb.elaborate(); tb.apply(DefaultPassGroup()); tb.sim_reset()
  tb.t=0; tb.log.clear(); tb.q.queue.clear()
  for _ in range(ncycles): tb.sim_tick()
  # ---- specification
  out=[]; fifo=[]; by_t={}
  for ev in tb.log: by_t.setdefault(ev[1],[]).append(ev)
  for t in range(ncycles):
    evs=by_t.get(t,[]); c0=len(fifo)
    names=[e[0] for e in evs]
    enq_done=any(e[0]=='enq' for e in evs); deq_done=any(e[0]=='deq' for e in evs)
    for e in evs:
      if e[0]=='enq_rdy':
        if kind=='pipe': exp = c0<n or (c0==n and deq_done)       # enqueue-when-full iff a dequeue happens that cycle
        else: exp = c0<n
        if e[2]!=exp: out.append(f"cycle {t}: enq.rdy() is {e[2]} with occupancy {c0}/{n}{', a dequeue this cycle' if deq_done else ''}: the {kind} queue must say {exp}")
      if e[0]=='deq_rdy':
        if kind=='bypass': exp = c0>0 or (c0==0 and enq_done)      # dequeue-when-empty iff an enqueue happens that cycle
        else: exp = c0>0
        if e[2]!=exp: out.append(f"cycle {t}: deq.rdy() is {e[2]} with occupancy {c0}/{n}{', an enqueue this cycle' if enq_done else ''}: the {kind} queue must say {exp}")
    # order of effects inside the cycle as logged
    for e in evs:
      if e[0]=='enq': fifo.append(e[2])
      if e[0]=='deq':
        if not fifo: out.append(f"cycle {t}: a message was dequeued from an empty queue"); continue
        exp=fifo.pop(0)
        if e[2]!=exp: out.append(f"cycle {t}: dequeued {e[2]} but the oldest accepted message is {exp}")
    if len(fifo)>n: out.append(f"cycle {t}: occupancy {len(fifo)} exceeds the capacity {n}")
    if out: break
  return out

def cases():
  out=[]
  for kind in ('normal','pipe','bypass'):
    for n in (1,2,3):
      orders={'normal':('enq_first','deq_first','free'),'pipe':('deq_first','free'),'bypass':('enq_first','free')}[kind]
      for o in orders: out.append(dict(kind=kind,n=n,order=o))
  return out
