"""C06 bounded stand-in for the class factory of pymtl3/datatypes/bitstructs.py (the generated methods themselves are proved per shape):
declaring two bitstruct types with the SAME class name and field names that differ in one aspect of a field type (leaf width, outer list
length, an inner list dimension, the nested struct type, the field order) must give each type its own shape: total width = sum of the leaf
widths of its own declaration, default value of that shape, to_bits / from_bits of that width."""
import sys, itertools

def _decls():
  """(tag, fields_a, fields_b) with fields as [(name, type expression string)]"""
  out=[]
  out.append(('leaf-width',[('x','Bits4'),('y','Bits3')],[('x','Bits4'),('y','Bits5')]))
  out.append(('outer-length',[('x','Bits4'),('m','[Bits2]*2')],[('x','Bits4'),('m','[Bits2]*3')]))
  out.append(('inner-dim',[('x','Bits4'),('m','[[Bits2]*2]*2')],[('x','Bits4'),('m','[[Bits2]*4]*2')]))
  out.append(('inner-dim-3d',[('m','[[[Bits1]*2]*3]*2')],[('m','[[[Bits1]*5]*3]*2')]))
  out.append(('middle-dim-3d',[('m','[[[Bits1]*2]*3]*2')],[('m','[[[Bits1]*2]*4]*2')]))
  out.append(('leaf-in-list',[('m','[[Bits2]*2]*2')],[('m','[[Bits3]*2]*2')]))
  out.append(('nested-type',[('p','NA'),('q','Bits2')],[('p','NB'),('q','Bits2')]))
  out.append(('list-of-nested',[('p','[NA]*2')],[('p','[NB]*2')]))
  out.append(('field-order',[('x','Bits4'),('y','Bits6')],[('y','Bits6'),('x','Bits4')]))
  return out

def _width(t,ns):
  t=t.strip()
  if t.startswith('['):
    inner,n=t[1:].rsplit(']*',1); return int(n)*_width(inner,ns)
  if t.startswith('Bits'): return int(t[4:])
  return ns[t].nbits

def _shape(v):
  from pymtl3.datatypes import Bits
  if isinstance(v,list): return [_shape(x) for x in v]
  if isinstance(v,Bits): return v.nbits
  return {f:_shape(getattr(v,f)) for f in v.__bitstruct_fields__}

def _want(t,ns):
  t=t.strip()
  if t.startswith('['):
    inner,n=t[1:].rsplit(']*',1); return [_want(inner,ns) for _ in range(int(n))]
  if t.startswith('Bits'): return int(t[4:])
  return _shape(ns[t]())

def check(repo):
  if repo not in sys.path: sys.path.insert(0,repo)
  import pymtl3
  from pymtl3.datatypes import mk_bitstruct, Bits, mk_bits
  ns={'NA':mk_bitstruct('NA',{'a':mk_bits(3)}),'NB':mk_bitstruct('NB',{'a':mk_bits(3),'b':mk_bits(2)})}
  env=dict(vars(pymtl3)); env.update(ns)
  out=[]
  for tag,fa,fb in _decls():
    for order,(first,second) in enumerate(((fa,fb),(fb,fa))):
      name=f"Dup_{tag.replace('-','_')}_{order}"
      for which,fields in (('first',first),('second',second)):
        T=mk_bitstruct(name,{f:eval(t,env) for f,t in fields})
        w=sum(_width(t,ns) for f,t in fields)
        where=f"{tag}: {which} declaration of {name} {fields}"
        try:
          if T.nbits!=w: out.append(f"{where}: nbits is {T.nbits}, the declaration sums to {w}"); continue
          d=T()
          if list(T.__bitstruct_fields__)!=[f for f,_ in fields]: out.append(f"{where}: fields are {list(T.__bitstruct_fields__)}")
          got=_shape(d); want={f:_want(t,ns) for f,t in fields}
          if got!=want: out.append(f"{where}: the default value has shape {got}, declared {want}"); continue
          b=d.to_bits()
          if b.nbits!=w: out.append(f"{where}: to_bits() is {b.nbits} bits wide, declared {w}")
          v=T.from_bits(Bits(w,(1<<w)-1))
          if int(v.to_bits())!=(1<<w)-1: out.append(f"{where}: from_bits/to_bits of all ones gives {int(v.to_bits()):#x}")
        except Exception as e:
          out.append(f"{where}: {type(e).__name__}: {str(e)[:120]}")
  return out
