"""Family R of the design zoo: register hierarchies with a reference model (bounded stand-in for C01 / C07).

Every design is one chain of 8-bit registers spread over a component tree (each component: `nregs` own registers, then its children in
order, connected through ports with //=).  Register j takes the pre-edge value of register j-1 (register 0: the top-level input in0):
   plain  : r <<= prev + k
   branchy: if s.en: r <<= prev + k            (holds otherwise; the branch makes the block 'branchy' for Mamba's meta-block packing)
   reset  : if s.reset: r <<= k  else: r <<= prev + k
   comb   : w @= prev ^ k  (an @update block) ; r <<= w      (an un-reset register fed through combinational logic)
The reference model is the three-line Python recurrence `ref_step`: it knows nothing of passes, schedules or double buffering.
Checked for every pass group: the register values after sim_reset() and after every sim_tick(), and the output after every
sim_eval_combinational(), equal the reference (C01: 'equal the unique values defined by the design's dataflow equations';
C07: 'all registers change together', 'a register not assigned holds its value', 'every update_ff block observes only pre-edge values')."""
import random

STYLES=('plain','branchy','reset','comb')

class Node:
  def __init__(s,nregs,children=(),aslist=False,one_block=False): s.nregs=nregs; s.children=list(children); s.aslist=aslist; s.one_block=one_block

def gen(tree,styles):
  """returns (source text of the classes + Top, chain=[(hierarchical name, style, k)])."""
  classes=[]; chain=[]; counter=[0]; cid=[0]
  def emit(node,path,is_top):
    name='Top' if is_top else f"N{cid[0]}"; cid[0]+=1
    L=[f"class {name}( Component ):","  def construct( s ):","    s.i = InPort( Bits8 ); s.en = InPort( Bits1 ); s.o = OutPort( Bits8 )"]
    prev='s.i'; ffs=[]
    for j in range(node.nregs):
      idx=counter[0]; counter[0]+=1
      st=styles[idx%len(styles)]; k=(7*idx+3)%251
      L.append(f"    s.r{j} = Wire( Bits8 )")
      src=prev
      if st=='comb':
        L+=[f"    s.w{j} = Wire( Bits8 )","    @update",f"    def up_w{j}():",f"      s.w{j} @= {prev} ^ {k}"]; src=f"s.w{j}"
      if st=='plain': body=[f"s.r{j} <<= {src} + {k}"]
      elif st=='branchy': body=[f"if s.en: s.r{j} <<= {src} + {k}"]
      elif st=='reset': body=[f"if s.reset: s.r{j} <<= {k}",f"else: s.r{j} <<= {src} + {k}"]
      else: body=[f"s.r{j} <<= {src}"]
      ffs.append((j,body)); chain.append((f"{path}.r{j}",st,k)); prev=f"s.r{j}"
    if node.one_block and ffs:
      L+=["    @update_ff","    def ff_all():"]+["      "+b for _,body in ffs for b in body]
    else:
      for j,body in ffs: L+=["    @update_ff",f"    def ff_{j}():"]+["      "+b for b in body]
    if node.children:
      kids=[]
      for ci,ch in enumerate(node.children):
        cpath=f"{path}.cs[{ci}]" if node.aslist else f"{path}.c{ci}"
        kids.append(emit(ch,cpath,False))
      if node.aslist:
        # a list of children needs one class: wrap differing classes by position
        L.append("    s.cs = [ "+", ".join(f"{k}()" for k in kids)+" ]")
        ref=lambda ci: f"s.cs[{ci}]"
      else:
        for ci,k in enumerate(kids): L.append(f"    s.c{ci} = {k}()")
        ref=lambda ci: f"s.c{ci}"
      for ci in range(len(kids)):
        L.append(f"    {ref(ci)}.i //= {prev}"); L.append(f"    {ref(ci)}.en //= s.en"); prev=f"{ref(ci)}.o"
    L.append(f"    s.o //= {prev}")
    classes.append('\n'.join(L)+'\n')
    return name
  emit(tree,'s',True)
  return '\n'.join(classes),chain

def ref_step(chain,regs,in0,en,reset):
  new=[]
  for j,(nm,st,k) in enumerate(chain):
    prev=in0 if j==0 else regs[j-1]
    if st=='plain': v=(prev+k)%256
    elif st=='branchy': v=(prev+k)%256 if en else regs[j]
    elif st=='reset': v=k if reset else (prev+k)%256
    else: v=prev^k
    new.append(v)
  return new

def family_R():
  """(name, body, chain).  Flat designs with many branchy blocks (meta-block thresholds), every small two-level shape (own registers 0..3 x
  children with 0..2 registers, as attributes and as a list), three-level shapes, one-block and one-block-per-register styles."""
  out=[]
  def add(name,tree,styles): body,chain=gen(tree,styles); out.append((f"R[{name}]",body,chain))
  for n in (1,2,5,6,7,8,12,21,24): add(f"flat;n={n};branchy",Node(n),('branchy',))
  for n in (3,7,9): add(f"flat;n={n};mixed",Node(n),STYLES)
  add("flat;n=4;oneblock",Node(4,one_block=True),STYLES)
  for nt in (0,1,2,3):
    for kids in ((1,),(2,),(1,1),(1,2),(0,1),(3,1)):
      for aslist in (False,True):
        if aslist and len(kids)<2: continue
        add(f"two-level;top={nt};kids={'-'.join(map(str,kids))};{'list' if aslist else 'attr'}",Node(nt,[Node(k) for k in kids],aslist),STYLES)
  for nt in (0,2):
    for nm in (0,1,2):
      add(f"three-level;{nt}-{nm}-1",Node(nt,[Node(nm,[Node(1)])]),STYLES)
  add("three-level;2-1-1+2",Node(2,[Node(1,[Node(1),Node(2)])]),STYLES)
  add("three-level;1-[1-1]-[2]",Node(1,[Node(1,[Node(1)]),Node(2)]),('plain','comb','reset'))
  return out

def check_ref(name,Top,chain,seed,ncycles=8):
  from zoo.simcheck import pass_groups, val
  out=[]
  for pg,apply in pass_groups(False).items():
    try:
      top=Top(); top.elaborate(); apply(top)
      rng=random.Random(seed)
      regs=[0]*len(chain)
      top.sim_reset()
      for _ in range(3): regs=ref_step(chain,regs,0,0,1)       # sim_reset = three clock edges with reset high (inputs at their initial 0)
      got=[val(top,nm) for nm,_,_ in chain]
      if got!=regs: out.append(f"{pg}: after sim_reset() the registers are {got} but three reset edges of the dataflow equations give {regs}"); continue
      for t in range(ncycles):
        in0=rng.getrandbits(8); en=rng.getrandbits(1)
        top.i @= in0; top.en @= en
        top.sim_eval_combinational()
        want_o=regs[-1] if regs else in0
        if int(top.o)!=want_o: out.append(f"{pg}: cycle {t}: output {int(top.o)} but the last register holds {want_o}"); break
        top.sim_tick()
        regs=ref_step(chain,regs,in0,en,0)
        got=[val(top,nm) for nm,_,_ in chain]
        if got!=regs:
          bad=[(chain[j][0],got[j],regs[j]) for j in range(len(regs)) if got[j]!=regs[j]][:3]
          out.append(f"{pg}: after tick {t} (in0={in0}, en={en}) registers differ from the pre-edge reference: {bad} (name, simulated, reference)"); break
    except Exception as e:
      out.append(f"{pg}: {type(e).__name__}: {str(e)[:160]}")
  return out
