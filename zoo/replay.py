import sys
def replay_design(p,repo):
  if repo not in sys.path: sys.path.insert(0,repo)
  from zoo import designs, run
  print("check      :",p['check'],"-",run.CHECK_DOC[p['check']]); print("design     :",p['design']); print(designs.HEADER.split('class Fwd')[0].strip()[:0]+p['body'])
  r=run._job((p['check'],p.get('expected'),p['design'],p['body'],repo,p.get('seed',0)))
  if r['error']: print("error:",r['error']); return 3
  if not r['failed']: print("the contract holds on this design: NOT reproduced"); return 0
  for f in r['failed']: print("FAILED     :",f)
  return 1

def replay_nets(p,repo):
  if repo not in sys.path: sys.path.insert(0,repo)
  from zoo import designs, run
  items=[(n,b) for n,b,g in designs.family_E(24) if g==p['group']]
  r=run._netjob((p['group'],items,repo))
  print("check      : nets -",run.CHECK_DOC['nets']); print("group      :",p['group'],f"({len(items)} permutations / side flips)")
  if r['error']: print("error:",r['error']); return 3
  if not r['failed']: print("the contract holds: NOT reproduced"); return 0
  for f in r['failed'][:6]: print("FAILED     :",f)
  return 1

def replay_mem(p,repo):
  if repo not in sys.path: sys.path.insert(0,repo)
  from zoo import memcheck
  print("check      : memory responses and final image against the sequential specification"); print("config     :",p['cfg'],"seed",p['seed'])
  r=memcheck.run_config(repo,p['seed'],p['cfg'])
  if not r: print("the contract holds: NOT reproduced"); return 0
  for f in r: print("FAILED     :",f)
  return 1

def replay_vcd(p,repo):
  if repo not in sys.path: sys.path.insert(0,repo)
  from zoo import run
  r=run._vcdjob((repo,p['seed'],p['design'],p['body']))
  print("check      : VCD / text-wave replay against the simulator"); print("design     :",p['design'],"seed",p['seed'])
  if not r['failed']: print("the contract holds: NOT reproduced"); return 0
  for f in r['failed']: print("FAILED     :",f)
  return 1
def replay_vcdsym(p,repo):
  from zoo import vcdcheck
  r=vcdcheck.check_symbols(repo)
  if not r: print("symbols distinct: NOT reproduced"); return 0
  for f in r: print("FAILED     :",f)
  return 1

def replay_tc(p,repo):
  if repo not in sys.path: sys.path.insert(0,repo)
  from zoo import tccheck
  print("check      : RTLIR type checker verdict against simulation"); print("block      :",p['design']); print('\n'.join('  '+b for b in p['body']))
  v,acc=tccheck.check_block(p['design'],p['body'],repo)
  if not v: print("the contract holds: NOT reproduced"); return 0
  for f in v: print("FAILED     :",f)
  return 1

def replay_tr(p,repo):
  if repo not in sys.path: sys.path.insert(0,repo)
  from zoo import trcheck
  f={'portmap':trcheck.check_portmap,'names':trcheck.check_names,'instances':trcheck.check_instances,'determinism':trcheck.check_determinism}[p['which']]
  print("check      :",p['which'],"(see zoo/trcheck.py)")
  r=f(repo)
  if not r: print("the contract holds: NOT reproduced"); return 0
  for x in r: print("FAILED     :",x)
  return 1

def replay_repl(p,repo):
  if repo not in sys.path: sys.path.insert(0,repo)
  from zoo import replcheck
  print("check      : replace_component vs a from-scratch build"); print("scenario   :",p['case'])
  r=replcheck.check_case(repo,p['case'],p.get('seed',0))
  if not r: print("the contract holds: NOT reproduced"); return 0
  for f in r: print("FAILED     :",f)
  return 1

def replay_clq(p,repo):
  if repo not in sys.path: sys.path.insert(0,repo)
  from zoo import clqcheck
  c=p['case']; print("check      : cycle-level queue against the FIFO / ready table"); print("scenario   :",c,"seed",p['seed'])
  r=clqcheck.run_case(repo,c['kind'],c['n'],c['order'],p['seed'])
  if not r: print("the contract holds: NOT reproduced"); return 0
  for f in r: print("FAILED     :",f)
  return 1

def replay_meth(p,repo):
  if repo not in sys.path: sys.path.insert(0,repo)
  from zoo import methcheck
  print("check      : explicit block / method constraints honoured by every scheduler"); print("design     :",p['design']); print(p['body'])
  r=methcheck.check(repo,p['design'],p['body'],p.get('seed',0))
  if not r: print("the contract holds: NOT reproduced"); return 0
  for f in r: print("FAILED     :",f)
  return 1

def replay_reg(p,repo):
  if repo not in sys.path: sys.path.insert(0,repo)
  from zoo import run
  print("check      : register hierarchy against the pass-independent reference recurrence (zoo/regfam.py)"); print("design     :",p['design']); print(p['body'])
  r=run._regjob((repo,p.get('seed',0),p['design'],p['body'],[tuple(c) for c in p['chain']]))
  if not r['failed']: print("the contract holds on this design: NOT reproduced"); return 0
  for f in r['failed']: print("FAILED     :",f)
  return 1

def replay_bs(p,repo):
  if repo not in sys.path: sys.path.insert(0,repo)
  from zoo import bscheck
  print("check      : bitstruct class factory - same-named declarations keep their own shape (zoo/bscheck.py)")
  r=bscheck.check(repo)
  if not r: print("the contract holds: NOT reproduced"); return 0
  for x in r: print("FAILED     :",x)
  return 1
