"""C18 bounded stand-in: request streams on the real MagicMemoryCL (CL interfaces) and the stream MagicMemoryRTL against a sequential
byte-array specification written from the statement, over enumerated timing configurations.  Ports use disjoint address regions, so the
expected responses / final image do not depend on how the memory interleaves ports."""
import sys, random

def _spec():
  def sgn(x,n=32): return x-(1<<n) if x>>(n-1) else x
  return sgn

def make_requests(seed,nports,nreq,Req,T):
  """seeded random streams: reads, writes and all AMOs; lengths 1..4 (0 = 4 bytes); overlapping addresses inside a port's own region."""
  rng=random.Random(seed); out=[]
  amos=[T.AMO_ADD,T.AMO_AND,T.AMO_OR,T.AMO_XOR,T.AMO_SWAP,T.AMO_MIN,T.AMO_MINU,T.AMO_MAX,T.AMO_MAXU]
  for p in range(nports):
    base=0x1000+0x40*p; rs=[]
    for k in range(nreq):
      r=rng.random(); ln=rng.choice([0,0,1,2,3]); off=rng.randrange(0,12)
      data=rng.choice([rng.getrandbits(32),0xffffffff,0x80000000,1,0x7fffffff])
      if r<0.35: rs.append(Req(T.READ,0x10*p+k,base+off,ln,0))
      elif r<0.7: rs.append(Req(T.WRITE,0x10*p+k,base+off,ln,data))
      else: rs.append(Req(rng.choice(amos),0x10*p+k,base+(off&~3),0,data))
    out.append(rs)
  return out

def spec_apply(image,req,T):
  sgn=_spec()
  AMO={T.AMO_ADD:lambda m,a:(m+a)&0xffffffff,T.AMO_AND:lambda m,a:m&a,T.AMO_OR:lambda m,a:m|a,T.AMO_XOR:lambda m,a:m^a,T.AMO_SWAP:lambda m,a:a,
       T.AMO_MIN:lambda m,a:m if sgn(m)<sgn(a) else a,T.AMO_MAX:lambda m,a:m if sgn(m)>sgn(a) else a,T.AMO_MINU:min,T.AMO_MAXU:max}
  ty,opq,addr,ln,data=int(req.type_),int(req.opaque),int(req.addr),int(req.len),int(req.data)
  n=ln if ln else 4; off=addr-0x1000
  old=int.from_bytes(image[off:off+n],'little')
  if ty==T.READ: return (ty,opq,ln,old)
  if ty==T.WRITE:
    image[off:off+n]=(data&((1<<(8*n))-1)).to_bytes(n,'little'); return (ty,opq,0,0)
  image[off:off+n]=AMO[ty](old,data).to_bytes(n,'little'); return (ty,opq,ln,old)

def run_cl(repo,seed,nports,nreq,stall_prob,latency,src_intv,sink_period):
  if repo not in sys.path: sys.path.insert(0,repo)
  from pymtl3 import Component, DefaultPassGroup, connect, non_blocking, update_once, U, M
  from pymtl3.stdlib.test_utils import TestSrcCL
  from pymtl3.stdlib.mem import MagicMemoryCL
  from pymtl3.stdlib.mem.MemMsg import MemMsgType as T, mk_mem_msg
  Req,Resp=mk_mem_msg(8,32,32)
  class RecSink(Component):
    @non_blocking(lambda s: s.cyc % s.period == s.phase)
    def recv(s,msg): s.got.append((int(msg.type_),int(msg.opaque),int(msg.len),int(msg.data)))
    def construct(s,period=1,phase=0):
      s.got=[]; s.cyc=0; s.period=period; s.phase=phase
      @update_once
      def up_cnt(): s.cyc+=1
      s.add_constraints(U(up_cnt)<M(s.recv),U(up_cnt)<M(s.recv.rdy))
    def line_trace(s): return ""
  reqs=make_requests(seed,nports,nreq,Req,T)
  class TB(Component):
    def construct(s):
      s.srcs=[TestSrcCL(Req,list(reqs[i]),0,src_intv) for i in range(nports)]
      s.mem=MagicMemoryCL(nports,[(Req,Resp)]*nports,stall_prob,latency)
      s.sinks=[RecSink(sink_period,i%sink_period) for i in range(nports)]
      for i in range(nports):
        connect(s.srcs[i].send,s.mem.ifc[i].req); connect(s.mem.ifc[i].resp,s.sinks[i].recv)
    def line_trace(s): return ""
  tb=TB(); tb.elaborate(); tb.apply(DefaultPassGroup())
  init=bytes((7*i+3)&0xff for i in range(0x100)); tb.mem.write_mem(0x1000,init)
  tb.sim_reset(); n=0
  while not all(len(tb.sinks[i].got)>=nreq for i in range(nports)) and n<4000: tb.sim_tick(); n+=1
  for _ in range(20): tb.sim_tick()
  got=[s.got for s in tb.sinks]; img=bytes(tb.mem.read_mem(0x1000,0x100))
  return compare(reqs,got,img,init,T)

def run_stream(repo,seed,nports,nreq,stall_prob,latency,src_delay,sink_init,sink_intv):
  if repo not in sys.path: sys.path.insert(0,repo)
  from pymtl3 import Component, DefaultPassGroup, connect
  from pymtl3.stdlib.stream.magic_memory import MagicMemoryRTL
  from pymtl3.stdlib.stream.SourceRTL import SourceRTL
  from pymtl3.stdlib.stream.ifcs import RecvIfcRTL
  from pymtl3.stdlib.mem.MemMsg import MemMsgType as T, mk_mem_msg
  from pymtl3 import InPort, OutPort, update_ff, update, Wire, Bits1, mk_bits
  Req,Resp=mk_mem_msg(8,32,32)
  reqs=make_requests(seed,nports,nreq,Req,T)
  class RecSink(Component):
    """valid/ready sink that is ready after `init` cycles and then every `intv`+1 cycles; records what it accepts."""
    def construct(s,init,intv):
      s.recv=RecvIfcRTL(Resp); s.got=[]; s.cnt=init
      @update_ff
      def up_sink():
        if s.reset: s.cnt=init; s.recv.rdy<<=0
        else:
          if s.recv.val & s.recv.rdy:
            m=s.recv.msg; s.got.append((int(m.type_),int(m.opaque),int(m.len),int(m.data)))
            s.cnt=intv
          elif s.cnt>0: s.cnt-=1
          s.recv.rdy <<= 1 if (s.cnt==0 or (s.cnt==1 and not (s.recv.val & s.recv.rdy))) and not (s.recv.val & s.recv.rdy and intv>0) else 0
    def line_trace(s): return ""
  class TB(Component):
    def construct(s):
      s.srcs=[SourceRTL(Req,list(reqs[i]),0,src_delay) for i in range(nports)]
      s.mem=MagicMemoryRTL(nports,[(Req,Resp)]*nports,stall_prob,latency)
      s.sinks=[RecSink(sink_init,sink_intv) for i in range(nports)]
      for i in range(nports):
        connect(s.srcs[i].send,s.mem.ifc[i].req); connect(s.mem.ifc[i].resp,s.sinks[i].recv)
    def line_trace(s): return ""
  tb=TB(); tb.elaborate(); tb.apply(DefaultPassGroup())
  init=bytes((7*i+3)&0xff for i in range(0x100)); tb.mem.write_mem(0x1000,init)
  tb.sim_reset(); n=0
  while not all(len(tb.sinks[i].got)>=nreq for i in range(nports)) and n<4000: tb.sim_tick(); n+=1
  for _ in range(20): tb.sim_tick()
  got=[s.got for s in tb.sinks]; img=bytes(tb.mem.read_mem(0x1000,0x100))
  return compare(reqs,got,img,init,T)

def compare(reqs,got,img,init,T):
  image=bytearray(init); exp=[[spec_apply(image,r,T) for r in port] for port in reqs]
  out=[]
  for p in range(len(reqs)):
    if got[p]!=exp[p]:
      k=next((i for i,(g,e) in enumerate(zip(got[p],exp[p])) if g!=e),min(len(got[p]),len(exp[p])))
      g=got[p][k] if k<len(got[p]) else None; e=exp[p][k] if k<len(exp[p]) else None
      out.append(f"port {p} response #{k}: got (type,opaque,len,data)={g} but the sequential specification gives {e} ({len(got[p])} responses for {len(exp[p])} requests)")
  if img!=bytes(image):
    bad=[hex(0x1000+i) for i in range(0x100) if img[i]!=image[i]]
    out.append(f"final memory image differs from the sequential specification at {bad[:6]}")
  return out

def configs(tier):
  cl=[]; st=[]
  for nports in (1,2):
    for latency in (0,1,3):
      for stall in (0.0,0.4):
        for (si,sp) in ((0,1),(1,1),(0,3)):
          cl.append(dict(kind='cl',nports=nports,nreq=6,stall_prob=stall,latency=latency,src_intv=si,sink_period=sp))
        for (sd,s0,s1) in ((0,0,0),(1,0,0),(0,5,3),(0,2,1)):
          st.append(dict(kind='stream',nports=nports,nreq=6,stall_prob=stall,latency=latency,src_delay=sd,sink_init=s0,sink_intv=s1))
  return cl+st

def run_config(repo,seed,cfg):
  c=dict(cfg); kind=c.pop('kind')
  try:
    return (run_cl if kind=='cl' else run_stream)(repo,seed,**c)
  except Exception as e:
    import traceback
    return [f"simulation raised {type(e).__name__}: {str(e).strip()[:150]}"]
