"""Design zoo: small parametrised families of real pymtl3 components used by the bounded stand-ins
(executable contracts of whole passes evaluated on real elaborated designs).  Each design is generated as
ordinary source text (so the DSL's own source inspection works and a failing design can be shown verbatim),
written under out/zoo/ and imported.  Every family is enumerated completely within its stated bound."""
import itertools, hashlib, importlib.util, os, sys

OUT=os.path.join(os.path.dirname(os.path.dirname(os.path.abspath(__file__))),'out','zoo')
HEADER='''from pymtl3 import *

@bitstruct
class Inner:
  x: Bits4
  y: Bits4

@bitstruct
class Outer:
  p: Inner
  q: Bits8

class Fwd( Component ):
  def construct( s, T ):
    s.in_ = InPort( T ); s.out = OutPort( T )
    @update
    def up_fwd(): s.out @= s.in_

'''

def load(name,body):
  """body: source of `class Top(Component)` (after HEADER). returns a factory."""
  src=HEADER+body
  h=hashlib.sha256(src.encode()).hexdigest()[:16]
  os.makedirs(OUT,exist_ok=True)
  path=os.path.join(OUT,f"zoo_{h}.py")
  if not os.path.exists(path):
    with open(path,'w') as f: f.write(src)
  modname=f"zoo_{h}"
  if modname in sys.modules: mod=sys.modules[modname]
  else:
    spec=importlib.util.spec_from_file_location(modname,path); mod=importlib.util.module_from_spec(spec); sys.modules[modname]=mod; spec.loader.exec_module(mod)
  return mod.Top, src

# ---------------------------------------------------------------------------------------------- family A: acyclic combinational
WRITE_KINDS=['whole','slice_lo','slice_hi','field','nested']
READ_KINDS =['whole','slice_lo','slice_mid','bit','field','nested','parentfield']
READ_BODY={ 'whole_b':"s.outs[{i}] @= {src} + 1", 'whole_s':"s.outs[{i}] @= zext({src}.p.x,16) + zext({src}.p.y,16) + zext({src}.q,16)",
  'slice_lo':"s.outs[{i}] @= zext({src}[0:8],16)", 'slice_mid':"s.outs[{i}] @= zext({src}[4:12],16)", 'bit':"s.outs[{i}] @= zext({src}[9],16)",
  'field':"s.outs[{i}] @= zext({src}.q,16)", 'nested':"s.outs[{i}] @= zext({src}.p.x,16)", 'parentfield':"s.outs[{i}] @= zext({src}.p.x,16) | zext({src}.p.y,16)"}

def family_A():
  out=[]
  for wk in WRITE_KINDS:
    for rks in itertools.chain(itertools.combinations(READ_KINDS,1),itertools.combinations(READ_KINDS,2)):
      struct = wk in('field','nested') or any(r in('field','nested','parentfield') for r in rks)
      bits   = wk in('slice_lo','slice_hi') or any(r in('slice_lo','slice_mid','bit') for r in rks)
      if struct and bits: continue
      for fwd in (False,True):
        for extra_pred in (False,True):
          out.append((f"A[{wk};{'+'.join(rks)};{'fwd' if fwd else 'nofwd'};{'pred' if extra_pred else 'nopred'}]",gen_A(wk,rks,struct,fwd,extra_pred)))
  return out

def gen_A(wk,rks,struct,fwd,extra_pred):
  L=[]; a=L.append
  a("class Top( Component ):"); a("  def construct( s ):")
  a("    s.in0 = InPort( Bits16 ); s.in1 = InPort( Bits16 )")
  T='Outer' if struct else 'Bits16'
  a(f"    s.w = Wire( {T} )"); a(f"    s.outs = [ OutPort( Bits16 ) for _ in range({len(rks)}) ]")
  if extra_pred:
    # a block that feeds the writer through a wire: forces a non-trivial position of the writer in every schedule
    a("    s.pre = Wire( Bits16 )")
    a("    @update"); a("    def up_pre(): s.pre @= s.in0 + 3")
    i0='s.pre'
  else: i0='s.in0'
  def blk(name,*stmts):
    a("    @update"); a(f"    def {name}():")
    for st in stmts: a("      "+st)
  if not struct:
    if wk=='whole': blk('up_wr',f"s.w @= {i0} ^ s.in1")
    elif wk=='slice_lo': blk('up_wr',f"s.w[0:8] @= {i0}[0:8] + s.in1[0:8]"); blk('up_rest',"s.w[8:16] @= s.in1[8:16]")
    else: blk('up_wr',f"s.w[8:16] @= {i0}[8:16] & s.in1[0:8]"); blk('up_rest',"s.w[0:8] @= s.in1[8:16]")
  else:
    if wk=='whole': blk('up_wr',f"s.w.p.x @= {i0}[0:4]",f"s.w.p.y @= {i0}[4:8]","s.w.q @= s.in1[0:8]")
    elif wk=='field': blk('up_wr',f"s.w.q @= {i0}[0:8] + s.in1[0:8]"); blk('up_rest',"s.w.p.x @= s.in1[0:4]","s.w.p.y @= s.in1[4:8]")
    else: blk('up_wr',f"s.w.p.x @= {i0}[0:4] ^ s.in1[0:4]"); blk('up_rest',"s.w.p.y @= s.in1[4:8]","s.w.q @= s.in1[8:16]")
  src='s.w'
  if fwd:
    a(f"    s.f = Fwd( {T} ); s.f.in_ //= s.w; s.w2 = Wire( {T} ); s.w2 //= s.f.out"); src='s.w2'
  for i,rk in enumerate(rks):
    key=rk if rk!='whole' else ('whole_s' if struct else 'whole_b')
    blk(f"up_rd{i}",READ_BODY[key].format(i=i,src=src))
  return '\n'.join(L)+'\n'

# ---------------------------------------------------------------------------------------------- family B: combinational cycles
def family_B():
  """false loops through disjoint bits / fields, convergent true loops, with an optional predecessor block that fixes the entry point,
  and one or two signals carried between the same pair of blocks (the watched-set corner)."""
  out=[]
  for kind in ('false_slices','false_fields','true_and','true_two_signals','ring3'):
    for pred in (False,True):
      for order in (0,1):
        out.append((f"B[{kind};{'pred' if pred else 'nopred'};o{order}]",gen_B(kind,pred,order)))
  return out

def gen_B(kind,pred,order):
  L=[]; a=L.append
  a("class Top( Component ):"); a("  def construct( s ):")
  a("    s.in0 = InPort( Bits8 ); s.in1 = InPort( Bits8 ); s.out = OutPort( Bits8 ); s.out2 = OutPort( Bits8 )")
  i0='s.in0'
  if pred:
    a("    s.pre = Wire( Bits8 )"); a("    @update"); a("    def up_pre(): s.pre @= s.in0 + 1"); i0='s.pre'
  def blk(name,*stmts):
    a("    @update"); a(f"    def {name}():")
    for st in stmts: a("      "+st)
  blocks=[]
  if kind=='false_slices':
    a("    s.a = Wire( Bits8 ); s.b = Wire( Bits8 )")
    blocks=[('up_x',[f"s.a[0:4] @= {i0}[0:4]","s.a[4:8] @= s.b[0:4]"]),('up_y',["s.b[0:4] @= s.a[0:4] + 1","s.b[4:8] @= s.in1[4:8]"]),('up_o',["s.out @= s.a","s.out2 @= s.b"])]
  elif kind=='false_fields':
    a("    s.a = Wire( Inner ); s.b = Wire( Inner )")
    blocks=[('up_x',[f"s.a.x @= {i0}[0:4]","s.a.y @= s.b.x"]),('up_y',["s.b.x @= s.a.x + 1","s.b.y @= s.in1[4:8]"]),
            ('up_o',["s.out[0:4] @= s.a.x","s.out[4:8] @= s.a.y","s.out2[0:4] @= s.b.x","s.out2[4:8] @= s.b.y"])]
  elif kind=='true_and':
    # x = in0 & y ; y = x | (in1 & in0): converges (monotone) to a unique fixed point from any start within a few iterations
    a("    s.x = Wire( Bits8 ); s.y = Wire( Bits8 )")
    blocks=[('up_x',[f"s.x @= {i0} & s.y"]),('up_y',["s.y @= s.x | s.in1"]),('up_o',["s.out @= s.x","s.out2 @= s.y"])]
  elif kind=='true_two_signals':
    # two different signals travel between the same pair of blocks, in both directions
    a("    s.x = Wire( Bits8 ); s.z = Wire( Bits8 ); s.y = Wire( Bits8 ); s.t = Wire( Bits8 )")
    blocks=[('up_x',[f"s.x @= {i0} & s.y","s.z @= s.in1 & s.t"]),('up_y',["s.y @= s.x | s.in1","s.t @= s.z | s.in1"]),('up_o',["s.out @= s.x","s.out2 @= s.z"])]
  else:
    a("    s.x = Wire( Bits8 ); s.y = Wire( Bits8 ); s.z = Wire( Bits8 )")
    blocks=[('up_x',[f"s.x @= {i0} & s.z"]),('up_y',["s.y @= s.x | s.in1"]),('up_z',["s.z @= s.y & s.in1"]),('up_o',["s.out @= s.x","s.out2 @= s.z"])]
  if order: blocks=blocks[::-1]
  for n,st in blocks: blk(n,*st)
  return '\n'.join(L)+'\n'

# ---------------------------------------------------------------------------------------------- family C: registers
def family_C():
  out=[]
  for kind in ('bits','struct','list','child_inport','forward_net','two_blocks'):
    out.append((f"C[{kind}]",gen_C(kind)))
  return out

def gen_C(kind):
  L=[]; a=L.append
  if kind=='child_inport':
    a("class Adder( Component ):"); a("  def construct( s ):")
    a("    s.a = InPort( Bits8 ); s.b = InPort( Bits8 ); s.sum = OutPort( Bits8 )")
    a("    @update"); a("    def up_add(): s.sum @= s.a + s.b"); a("")
  a("class Top( Component ):"); a("  def construct( s ):")
  a("    s.in0 = InPort( Bits8 ); s.in1 = InPort( Bits8 ); s.out = OutPort( Bits8 ); s.out2 = OutPort( Bits8 )")
  if kind=='bits':
    a("    s.r0 = Wire( Bits8 ); s.r1 = Wire( Bits8 )")
    a("    @update_ff"); a("    def ff_a():"); a("      s.r0 <<= s.in0"); a("      s.r0 <<= s.in0 + s.r1")      # last assignment wins
    a("    @update_ff"); a("    def ff_b():"); a("      if s.in1[0]: s.r1 <<= s.r0")                          # swap partner reads pre-edge r0; holds otherwise
    a("    @update");    a("    def up_o():"); a("      s.out @= s.r0"); a("      s.out2 @= s.r1")
  elif kind=='struct':
    a("    s.r = Wire( Outer ); s.q = Wire( Outer ); s.t = Wire( Outer )")
    a("    @update");    a("    def up_t():"); a("      s.t.p.x @= s.in0[0:4]"); a("      s.t.p.y @= s.q.p.x"); a("      s.t.q @= s.in1")
    a("    @update_ff"); a("    def ff_a():"); a("      s.r <<= s.t")
    a("    @update_ff"); a("    def ff_b():"); a("      s.q <<= s.r")
    a("    @update");    a("    def up_o():"); a("      s.out @= s.r.q"); a("      s.out2[0:4] @= s.q.p.y"); a("      s.out2[4:8] @= s.r.p.y")
  elif kind=='list':
    a("    s.rs = [ Wire( Bits8 ) for _ in range(3) ]")
    a("    @update_ff"); a("    def ff_a():"); a("      s.rs[0] <<= s.in0"); a("      for i in range(2): s.rs[i+1] <<= s.rs[i]")
    a("    @update");    a("    def up_o():"); a("      s.out @= s.rs[2]"); a("      s.out2 @= s.rs[1]")
  elif kind=='child_inport':
    a("    s.add = Adder()")
    a("    @update_ff"); a("    def ff_a():"); a("      s.add.a <<= s.in0"); a("      s.add.b <<= s.in1")
    a("    @update");    a("    def up_o():"); a("      s.out @= s.add.sum"); a("      s.out2 @= s.add.a")
  elif kind=='forward_net':
    a("    s.r = Wire( Bits8 ); s.w = Wire( Bits8 ); s.f = Fwd( Bits8 )")
    a("    s.f.in_ //= s.r; s.w //= s.f.out")
    a("    @update_ff"); a("    def ff_a():"); a("      s.r <<= s.w + s.in0")
    a("    @update");    a("    def up_o():"); a("      s.out @= s.w"); a("      s.out2 @= s.r")
  else:
    a("    s.r0 = Wire( Bits8 ); s.r1 = Wire( Bits8 ); s.r2 = Wire( Bits8 )")
    a("    @update_ff"); a("    def ff_a():"); a("      s.r0 <<= s.r2 + s.in0")
    a("    @update_ff"); a("    def ff_b():"); a("      s.r1 <<= s.r0")
    a("    @update_ff"); a("    def ff_c():"); a("      s.r2 <<= s.r1 ^ s.in1")
    a("    @update");    a("    def up_o():"); a("      s.out @= s.r0 + s.r1"); a("      s.out2 @= s.r2")
  return '\n'.join(L)+'\n'

# ---------------------------------------------------------------------------------------------- family M: many branchy blocks (meta-block packing of Mamba2020)
def family_M():
  out=[]
  for nlanes in (5,6,8):
    for depth in (1,2):
      out.append((f"M[{nlanes};{depth}]",gen_M(nlanes,depth)))
  return out

def gen_M(nlanes,depth):
  L=[]; a=L.append
  a("class Top( Component ):"); a("  def construct( s ):")
  a("    s.in0 = InPort( Bits8 ); s.in1 = InPort( Bits8 ); s.total = OutPort( Bits8 )")
  a(f"    s.lane = [ [ Wire( Bits8 ) for _ in range({depth+1}) ] for _ in range({nlanes}) ]")
  for i in range(nlanes):
    a("    @update"); a(f"    def up_l{i}_0():")
    a(f"      if s.in0[{i%8}]: s.lane[{i}][0] @= s.in1 + {i}")
    a(f"      else: s.lane[{i}][0] @= s.in0 ^ {i}")
    for d in range(1,depth+1):
      a("    @update"); a(f"    def up_l{i}_{d}():")
      a(f"      if s.lane[{i}][{d-1}][0]: s.lane[{i}][{d}] @= s.lane[{i}][{d-1}] + 1")
      a(f"      elif s.lane[{i}][{d-1}][1]: s.lane[{i}][{d}] @= s.lane[{i}][{d-1}] + 2")
      a(f"      else: s.lane[{i}][{d}] @= s.lane[{i}][{d-1}]")
  a("    @update"); a("    def up_total():")
  a("      s.total @= "+" + ".join(f"s.lane[{i}][{depth}]" for i in range(nlanes)))
  return '\n'.join(L)+'\n'
