"""Design zoo: small parametrised families of real pymtl3 components used by the bounded stand-ins
(executable contracts of whole passes evaluated on real elaborated designs).  Each design is generated as
ordinary source text (so the DSL's own source inspection works and a failing design can be shown verbatim),
written under out/zoo/ and imported.  Every family is enumerated completely within its stated bound."""
import itertools, hashlib, importlib.util, os, sys

OUT=os.path.join(os.path.dirname(os.path.dirname(os.path.abspath(__file__))),'out','zoo')
HEADER='''from pymtl3 import *

@bitstruct
class Inner:
  x: Bits4
  y: Bits4

@bitstruct
class Outer:
  p: Inner
  q: Bits8

@bitstruct
class Deep:
  p: Inner

@bitstruct
class Pre:
  val: Bits8
  val2: Bits8

class Fwd( Component ):
  def construct( s, T ):
    s.in_ = InPort( T ); s.out = OutPort( T )
    @update
    def up_fwd(): s.out @= s.in_

'''

def _atomic_write(path,text):
  """write-then-rename: a pool worker never imports a half-written generated module"""
  import os, tempfile
  d=os.path.dirname(path); fd,tmp=tempfile.mkstemp(dir=d,suffix='.tmp')
  with os.fdopen(fd,'w') as f: f.write(text)
  os.replace(tmp,path)

def load(name,body):
  """body: source of `class Top(Component)` (after HEADER). returns a factory."""
  src=HEADER+body
  h=hashlib.sha256(src.encode()).hexdigest()[:16]
  os.makedirs(OUT,exist_ok=True)
  path=os.path.join(OUT,f"zoo_{h}.py")
  if not os.path.exists(path):
    _atomic_write(path,src)
  modname=f"zoo_{h}"
  if modname in sys.modules: mod=sys.modules[modname]
  else:
    spec=importlib.util.spec_from_file_location(modname,path); mod=importlib.util.module_from_spec(spec); sys.modules[modname]=mod; spec.loader.exec_module(mod)
  return mod.Top, src

# ---------------------------------------------------------------------------------------------- family A: acyclic combinational
WRITE_KINDS=['whole','slice_lo','slice_hi','field','nested']
READ_KINDS =['whole','slice_lo','slice_mid','bit','field','nested','parentfield']
READ_BODY={ 'whole_b':"s.outs[{i}] @= {src} + 1", 'whole_s':"s.outs[{i}] @= zext({src}.p.x,16) + zext({src}.p.y,16) + zext({src}.q,16)",
  'slice_lo':"s.outs[{i}] @= zext({src}[0:8],16)", 'slice_mid':"s.outs[{i}] @= zext({src}[4:12],16)", 'bit':"s.outs[{i}] @= zext({src}[9],16)",
  'field':"s.outs[{i}] @= zext({src}.q,16)", 'nested':"s.outs[{i}] @= zext({src}.p.x,16)", 'parentfield':"s.outs[{i}] @= zext({src}.p.x,16) | zext({src}.p.y,16)"}

def family_A():
  out=[]
  for wk in WRITE_KINDS:
    for rks in itertools.chain(itertools.combinations(READ_KINDS,1),itertools.combinations(READ_KINDS,2)):
      struct = wk in('field','nested') or any(r in('field','nested','parentfield') for r in rks)
      bits   = wk in('slice_lo','slice_hi') or any(r in('slice_lo','slice_mid','bit') for r in rks)
      if struct and bits: continue
      for fwd in (False,True):
        for extra_pred in (False,True):
          out.append((f"A[{wk};{'+'.join(rks)};{'fwd' if fwd else 'nofwd'};{'pred' if extra_pred else 'nopred'}]",gen_A(wk,rks,struct,fwd,extra_pred)))
  # reads and writes that happen inside @s.func helper functions (chains of depth 1..3) belong to the calling block
  for d in (1,2,3):
    for side in ('reader','writer','both'):
      for extra_pred in (False,True):
        out.append((f"A[helper;{side};d{d};{'pred' if extra_pred else 'nopred'}]",gen_A_helper(d,side,extra_pred)))
  return out

def gen_A_helper(d,side,extra_pred):
  L=[]; a=L.append
  a("class Top( Component ):"); a("  def construct( s ):")
  a("    s.in0 = InPort( Bits16 ); s.in1 = InPort( Bits16 )"); a("    s.w = Wire( Bits16 )"); a("    s.outs = [ OutPort( Bits16 ) for _ in range(1) ]")
  i0='s.in0'
  if extra_pred:
    a("    s.pre = Wire( Bits16 )"); a("    @update"); a("    def up_pre(): s.pre @= s.in0 + 3"); i0='s.pre'
  def chain(prefix,body):
    a("    @s.func"); a(f"    def {prefix}1():"); a("      "+body)
    for k in range(2,d+1):
      a("    @s.func"); a(f"    def {prefix}{k}():"); a(f"      {prefix}{k-1}()")
  if side in('writer','both'):
    chain('h',f"s.w @= {i0} ^ s.in1"); a("    @update"); a("    def up_wr():"); a(f"      h{d}()")
  else:
    a("    @update"); a("    def up_wr():"); a(f"      s.w @= {i0} ^ s.in1")
  if side in('reader','both'):
    chain('g',"s.outs[0] @= s.w + 1"); a("    @update"); a("    def up_rd0():"); a(f"      g{d}()")
  else:
    a("    @update"); a("    def up_rd0():"); a("      s.outs[0] @= s.w + 1")
  return '\n'.join(L)+'\n'

def gen_A(wk,rks,struct,fwd,extra_pred):
  L=[]; a=L.append
  a("class Top( Component ):"); a("  def construct( s ):")
  a("    s.in0 = InPort( Bits16 ); s.in1 = InPort( Bits16 )")
  T='Outer' if struct else 'Bits16'
  a(f"    s.w = Wire( {T} )"); a(f"    s.outs = [ OutPort( Bits16 ) for _ in range({len(rks)}) ]")
  if extra_pred:
    # a block that feeds the writer through a wire: forces a non-trivial position of the writer in every schedule
    a("    s.pre = Wire( Bits16 )")
    a("    @update"); a("    def up_pre(): s.pre @= s.in0 + 3")
    i0='s.pre'
  else: i0='s.in0'
  def blk(name,*stmts):
    a("    @update"); a(f"    def {name}():")
    for st in stmts: a("      "+st)
  if not struct:
    if wk=='whole': blk('up_wr',f"s.w @= {i0} ^ s.in1")
    elif wk=='slice_lo': blk('up_wr',f"s.w[0:8] @= {i0}[0:8] + s.in1[0:8]"); blk('up_rest',"s.w[8:16] @= s.in1[8:16]")
    else: blk('up_wr',f"s.w[8:16] @= {i0}[8:16] & s.in1[0:8]"); blk('up_rest',"s.w[0:8] @= s.in1[8:16]")
  else:
    if wk=='whole': blk('up_wr',f"s.w.p.x @= {i0}[0:4]",f"s.w.p.y @= {i0}[4:8]","s.w.q @= s.in1[0:8]")
    elif wk=='field': blk('up_wr',f"s.w.q @= {i0}[0:8] + s.in1[0:8]"); blk('up_rest',"s.w.p.x @= s.in1[0:4]","s.w.p.y @= s.in1[4:8]")
    else: blk('up_wr',f"s.w.p.x @= {i0}[0:4] ^ s.in1[0:4]"); blk('up_rest',"s.w.p.y @= s.in1[4:8]","s.w.q @= s.in1[8:16]")
  src='s.w'
  if fwd:
    a(f"    s.f = Fwd( {T} ); s.f.in_ //= s.w; s.w2 = Wire( {T} ); s.w2 //= s.f.out"); src='s.w2'
  for i,rk in enumerate(rks):
    key=rk if rk!='whole' else ('whole_s' if struct else 'whole_b')
    blk(f"up_rd{i}",READ_BODY[key].format(i=i,src=src))
  return '\n'.join(L)+'\n'

# ---------------------------------------------------------------------------------------------- family B: combinational cycles
def family_B():
  """false loops through disjoint bits / fields, convergent true loops, with an optional predecessor block that fixes the entry point,
  and one or two signals carried between the same pair of blocks (the watched-set corner)."""
  out=[]
  for kind in ('false_slices','false_fields','true_and','true_two_signals','ring3'):
    for pred in (False,True):
      for order in (0,1):
        out.append((f"B[{kind};{'pred' if pred else 'nopred'};o{order}]",gen_B(kind,pred,order)))
  # cycles carried by fields of one struct whose names are prefixes of each other; cycles that must be rejected (no value-carrying
  # signal: only explicit constraints, one of them inverting a writer/reader pair; an update_once block on the cycle), each with and
  # without a predecessor block feeding the group
  for kind in ('true_prefix_fields','reject_explicit_only','reject_explicit_inverted','reject_update_once'):
    for pred in (False,True):
      for order in (0,1):
        out.append((f"B[{kind};{'pred' if pred else 'nopred'};o{order}]",gen_B(kind,pred,order)))
  return out

def gen_B(kind,pred,order):
  L=[]; a=L.append
  a("class Top( Component ):"); a("  def construct( s ):")
  a("    s.in0 = InPort( Bits8 ); s.in1 = InPort( Bits8 ); s.out = OutPort( Bits8 ); s.out2 = OutPort( Bits8 )")
  i0='s.in0'
  if pred:
    a("    s.pre = Wire( Bits8 )"); a("    @update"); a("    def up_pre(): s.pre @= s.in0 + 1"); i0='s.pre'
  def blk(name,*stmts):
    a("    @update"); a(f"    def {name}():")
    for st in stmts: a("      "+st)
  blocks=[]
  if kind=='false_slices':
    a("    s.a = Wire( Bits8 ); s.b = Wire( Bits8 )")
    blocks=[('up_x',[f"s.a[0:4] @= {i0}[0:4]","s.a[4:8] @= s.b[0:4]"]),('up_y',["s.b[0:4] @= s.a[0:4] + 1","s.b[4:8] @= s.in1[4:8]"]),('up_o',["s.out @= s.a","s.out2 @= s.b"])]
  elif kind=='false_fields':
    a("    s.a = Wire( Inner ); s.b = Wire( Inner )")
    blocks=[('up_x',[f"s.a.x @= {i0}[0:4]","s.a.y @= s.b.x"]),('up_y',["s.b.x @= s.a.x + 1","s.b.y @= s.in1[4:8]"]),
            ('up_o',["s.out[0:4] @= s.a.x","s.out[4:8] @= s.a.y","s.out2[0:4] @= s.b.x","s.out2[4:8] @= s.b.y"])]
  elif kind=='true_and':
    # x = in0 & y ; y = x | (in1 & in0): converges (monotone) to a unique fixed point from any start within a few iterations
    a("    s.x = Wire( Bits8 ); s.y = Wire( Bits8 )")
    blocks=[('up_x',[f"s.x @= {i0} & s.y"]),('up_y',["s.y @= s.x | s.in1"]),('up_o',["s.out @= s.x","s.out2 @= s.y"])]
  elif kind=='true_two_signals':
    # two different signals travel between the same pair of blocks, in both directions
    a("    s.x = Wire( Bits8 ); s.z = Wire( Bits8 ); s.y = Wire( Bits8 ); s.t = Wire( Bits8 )")
    blocks=[('up_x',[f"s.x @= {i0} & s.y","s.z @= s.in1 & s.t"]),('up_y',["s.y @= s.x | s.in1","s.t @= s.z | s.in1"]),('up_o',["s.out @= s.x","s.out2 @= s.z"])]
  elif kind=='true_prefix_fields':
    # val <- val2 ; val2 <- val | in1 | in0': converges; the two fields carrying the cycle are `val` and `val2` of one struct
    a("    s.st = Wire( Pre )")
    blocks=[('up_fwd',["s.st.val @= s.st.val2"]),('up_acc',[f"s.st.val2 @= s.st.val | s.in1 | {i0}"]),('up_o',["s.out @= s.st.val","s.out2 @= s.st.val2"])]
  elif kind=='reject_explicit_only':
    a("    s.x = Wire( Bits8 ); s.y = Wire( Bits8 ); s.z = Wire( Bits8 )")
    blocks=[('up_a',[f"s.x @= {i0}"]),('up_b',["s.y @= s.in1"]),('up_c',["s.z @= s.in1 + 1"]),('up_o',["s.out @= s.x","s.out2 @= s.y ^ s.z"])]
    tail=["s.add_constraints( U(up_a) < U(up_b), U(up_b) < U(up_c), U(up_c) < U(up_a) )"]
  elif kind=='reject_explicit_inverted':
    # up_a writes x, up_b reads x, the implicit order is inverted explicitly and closed into a cycle by two more explicit constraints
    a("    s.x = Wire( Bits8 ); s.y = Wire( Bits8 ); s.z = Wire( Bits8 )")
    blocks=[('up_a',[f"s.x @= {i0}"]),('up_b',["s.y @= s.x"]),('up_c',["s.z @= s.in1"]),('up_o',["s.out @= s.y","s.out2 @= s.z"])]
    tail=["s.add_constraints( U(up_b) < U(up_a), U(up_a) < U(up_c), U(up_c) < U(up_b) )"]
  elif kind=='reject_update_once':
    a("    s.x = Wire( Bits8 ); s.y = Wire( Bits8 )")
    blocks=[('up_once',["s.x @= s.y"]),('up_inc',[f"s.y @= s.x | {i0}"]),('up_o',["s.out @= s.x","s.out2 @= s.y"])]
  else:
    a("    s.x = Wire( Bits8 ); s.y = Wire( Bits8 ); s.z = Wire( Bits8 )")
    blocks=[('up_x',[f"s.x @= {i0} & s.z"]),('up_y',["s.y @= s.x | s.in1"]),('up_z',["s.z @= s.y & s.in1"]),('up_o',["s.out @= s.x","s.out2 @= s.z"])]
  if order: blocks=blocks[::-1]
  for n,st in blocks:
    if n=='up_once':
      a("    @update_once"); a(f"    def {n}():")
      for x in st: a("      "+x)
    else: blk(n,*st)
  for t in locals().get('tail',[]): a("    "+t)
  return '\n'.join(L)+'\n'

# ---------------------------------------------------------------------------------------------- family C: registers
def family_C():
  out=[]
  for kind in ('bits','struct','list','child_inport','forward_net','two_blocks'):
    out.append((f"C[{kind}]",gen_C(kind)))
  return out

def gen_C(kind):
  L=[]; a=L.append
  if kind=='child_inport':
    a("class Adder( Component ):"); a("  def construct( s ):")
    a("    s.a = InPort( Bits8 ); s.b = InPort( Bits8 ); s.sum = OutPort( Bits8 )")
    a("    @update"); a("    def up_add(): s.sum @= s.a + s.b"); a("")
  a("class Top( Component ):"); a("  def construct( s ):")
  a("    s.in0 = InPort( Bits8 ); s.in1 = InPort( Bits8 ); s.out = OutPort( Bits8 ); s.out2 = OutPort( Bits8 )")
  if kind=='bits':
    a("    s.r0 = Wire( Bits8 ); s.r1 = Wire( Bits8 )")
    a("    @update_ff"); a("    def ff_a():"); a("      s.r0 <<= s.in0"); a("      s.r0 <<= s.in0 + s.r1")      # last assignment wins
    a("    @update_ff"); a("    def ff_b():"); a("      if s.in1[0]: s.r1 <<= s.r0")                          # swap partner reads pre-edge r0; holds otherwise
    a("    @update");    a("    def up_o():"); a("      s.out @= s.r0"); a("      s.out2 @= s.r1")
  elif kind=='struct':
    a("    s.r = Wire( Outer ); s.q = Wire( Outer ); s.t = Wire( Outer )")
    a("    @update");    a("    def up_t():"); a("      s.t.p.x @= s.in0[0:4]"); a("      s.t.p.y @= s.q.p.x"); a("      s.t.q @= s.in1")
    a("    @update_ff"); a("    def ff_a():"); a("      s.r <<= s.t")
    a("    @update_ff"); a("    def ff_b():"); a("      s.q <<= s.r")
    a("    @update");    a("    def up_o():"); a("      s.out @= s.r.q"); a("      s.out2[0:4] @= s.q.p.y"); a("      s.out2[4:8] @= s.r.p.y")
  elif kind=='list':
    a("    s.rs = [ Wire( Bits8 ) for _ in range(3) ]")
    a("    @update_ff"); a("    def ff_a():"); a("      s.rs[0] <<= s.in0"); a("      for i in range(2): s.rs[i+1] <<= s.rs[i]")
    a("    @update");    a("    def up_o():"); a("      s.out @= s.rs[2]"); a("      s.out2 @= s.rs[1]")
  elif kind=='child_inport':
    a("    s.add = Adder()")
    a("    @update_ff"); a("    def ff_a():"); a("      s.add.a <<= s.in0"); a("      s.add.b <<= s.in1")
    a("    @update");    a("    def up_o():"); a("      s.out @= s.add.sum"); a("      s.out2 @= s.add.a")
  elif kind=='forward_net':
    a("    s.r = Wire( Bits8 ); s.w = Wire( Bits8 ); s.f = Fwd( Bits8 )")
    a("    s.f.in_ //= s.r; s.w //= s.f.out")
    a("    @update_ff"); a("    def ff_a():"); a("      s.r <<= s.w + s.in0")
    a("    @update");    a("    def up_o():"); a("      s.out @= s.w"); a("      s.out2 @= s.r")
  else:
    a("    s.r0 = Wire( Bits8 ); s.r1 = Wire( Bits8 ); s.r2 = Wire( Bits8 )")
    a("    @update_ff"); a("    def ff_a():"); a("      s.r0 <<= s.r2 + s.in0")
    a("    @update_ff"); a("    def ff_b():"); a("      s.r1 <<= s.r0")
    a("    @update_ff"); a("    def ff_c():"); a("      s.r2 <<= s.r1 ^ s.in1")
    a("    @update");    a("    def up_o():"); a("      s.out @= s.r0 + s.r1"); a("      s.out2 @= s.r2")
  return '\n'.join(L)+'\n'

# ---------------------------------------------------------------------------------------------- family M: many branchy blocks (meta-block packing of Mamba2020)
def family_M():
  out=[]
  for nlanes in (5,6,8):
    for depth in (1,2):
      out.append((f"M[{nlanes};{depth}]",gen_M(nlanes,depth)))
  return out

def gen_M(nlanes,depth):
  L=[]; a=L.append
  a("class Top( Component ):"); a("  def construct( s ):")
  a("    s.in0 = InPort( Bits8 ); s.in1 = InPort( Bits8 ); s.total = OutPort( Bits8 )")
  a(f"    s.lane = [ [ Wire( Bits8 ) for _ in range({depth+1}) ] for _ in range({nlanes}) ]")
  for i in range(nlanes):
    a("    @update"); a(f"    def up_l{i}_0():")
    a(f"      if s.in0[{i%8}]: s.lane[{i}][0] @= s.in1 + {i}")
    a(f"      else: s.lane[{i}][0] @= s.in0 ^ {i}")
    for d in range(1,depth+1):
      a("    @update"); a(f"    def up_l{i}_{d}():")
      a(f"      if s.lane[{i}][{d-1}][0]: s.lane[{i}][{d}] @= s.lane[{i}][{d-1}] + 1")
      a(f"      elif s.lane[{i}][{d-1}][1]: s.lane[{i}][{d}] @= s.lane[{i}][{d-1}] + 2")
      a(f"      else: s.lane[{i}][{d}] @= s.lane[{i}][{d-1}]")
  a("    @update"); a("    def up_total():")
  a("      s.total @= "+" + ".join(f"s.lane[{i}][{depth}]" for i in range(nlanes)))
  return '\n'.join(L)+'\n'

# ---------------------------------------------------------------------------------------------- family D: structural defects (C09)
def family_D():
  """(name, body, expected) ; expected = None (must elaborate) or the name of the pymtl3.dsl.errors class that must be raised.
  Each defect comes in every order of its statements."""
  out=[]
  def top(lines,pre=''):
    return pre+"class Top( Component ):\n  def construct( s ):\n"+''.join("    "+l+"\n" for l in lines)
  P="s.in0 = InPort( Bits8 ); s.in1 = InPort( Bits8 ); s.out = OutPort( Bits8 ); s.w = Wire( Bits8 ); s.st = Wire( Outer )"
  def blk(name,*st,ff=False): return ["@update_ff" if ff else "@update",f"def {name}():"]+["  "+x for x in st]
  def both_orders(tag,b1,b2,rest,expected):
    for k,(x,y) in enumerate(((b1,b2),(b2,b1))):
      out.append((f"D[{tag};o{k}]",top([P]+x+y+rest),expected))
  rd=blk('up_o',"s.out @= s.w")
  both_orders('two-blocks-one-signal',blk('up_a',"s.w @= s.in0"),blk('up_b',"s.w @= s.in1"),rd,'MultiWriterError')
  both_orders('field-and-parent',blk('up_a',"s.st.q @= s.in0"),blk('up_b',"s.st.p.x @= s.in1[0:4]","s.st.p.y @= s.in1[4:8]","s.st.q @= s.in1"),blk('up_o',"s.out @= s.st.q"),'MultiWriterError')
  both_orders('nested-field-and-parent-field',blk('up_a',"s.st.p.x @= s.in0[0:4]"),blk('up_b',"s.st.p.x @= s.in1[0:4]"),blk('up_o',"s.out @= s.st.q"),'MultiWriterError')
  both_orders('overlapping-slices',blk('up_a',"s.w[0:5] @= s.in0[0:5]"),blk('up_b',"s.w[4:8] @= s.in1[0:4]"),rd,'MultiWriterError')
  both_orders('slice-and-whole',blk('up_a',"s.w[0:4] @= s.in0[0:4]"),blk('up_b',"s.w @= s.in1"),rd,'MultiWriterError')
  both_orders('disjoint-slices',blk('up_a',"s.w[0:4] @= s.in0[0:4]"),blk('up_b',"s.w[4:8] @= s.in1[0:4]"),rd,None)
  both_orders('disjoint-fields',blk('up_a',"s.st.q @= s.in0"),blk('up_b',"s.st.p.x @= s.in1[0:4]","s.st.p.y @= s.in1[4:8]"),blk('up_o',"s.out @= s.st.q"),None)
  out.append(("D[one-block-overlapping-slices]",top([P]+blk('up_a',"s.w[0:5] @= s.in0[0:5]","s.w[3:8] @= s.in1[0:5]")+rd),None))
  out.append(("D[one-block-slice-and-whole]",top([P]+blk('up_a',"s.w @= s.in1","s.w[0:4] @= s.in0[0:4]")+rd),None))
  # ---- writes through @s.func helper functions (a helper may call another helper): the write belongs to every block that reaches it
  def helpers(depth,target):
    L=["@s.func","def f1( v ):",f"  {target} @= v"]
    for d in range(2,depth+1): L+=["@s.func",f"def f{d}( v ):",f"  f{d-1}( v + 1 )"]
    return L
  for d in (1,2,3):
    both_orders(f'helper-depth{d}-and-block-drive-one-signal',helpers(d,'s.w')+blk('up_a',f"f{d}( s.in0 )"),blk('up_b',"s.w @= s.in1"),rd,'MultiWriterError')
    out.append((f"D[helper-depth{d}-single-driver]",top([P]+helpers(d,'s.w')+blk('up_a',f"f{d}( s.in0 )")+rd),None))
  # ---- nets
  both_orders('block-and-net-drive-one-signal',blk('up_a',"s.w @= s.in0"),["s.w //= s.in1"],rd,'MultiWriterError')
  both_orders('two-nets-drive-one-signal',["connect( s.w, s.in0 )"],["connect( s.in1, s.w )"],rd,'MultiWriterError')
  both_orders('net-drives-slice-block-drives-whole',blk('up_a',"s.w @= s.in0"),["s.w[0:4] //= s.in1[0:4]"],rd,'MultiWriterError')
  out.append(("D[net-without-driver]",top([P,"s.v = Wire( Bits8 )","s.w //= s.v"]+rd),'NoWriterError'))
  for k,perm in enumerate((("s.a //= s.b","s.b //= s.c","s.c //= s.a"),("s.c //= s.a","s.a //= s.b","s.b //= s.c"),("connect( s.b, s.a )","connect( s.c, s.b )","connect( s.a, s.c )"))):
    out.append((f"D[connection-loop;o{k}]",top([P,"s.a = Wire( Bits8 ); s.b = Wire( Bits8 ); s.c = Wire( Bits8 )","s.a //= s.in0"]+list(perm)+blk('up_o',"s.out @= s.c")),'InvalidConnectionError'))
  out.append(("D[self-connection]",top([P,"s.a = Wire( Bits8 )","s.a //= s.in0","connect( s.a, s.a )"]+blk('up_o',"s.out @= s.a")),'InvalidConnectionError'))
  out.append(("D[tree-connection-no-loop]",top([P,"s.a = Wire( Bits8 ); s.b = Wire( Bits8 ); s.c = Wire( Bits8 )","s.a //= s.in0","s.b //= s.a","s.c //= s.a"]+blk('up_o',"s.out @= s.c")),None))
  # ---- port rules
  CH="class Ch( Component ):\n  def construct( s ):\n    s.i = InPort( Bits8 ); s.o = OutPort( Bits8 ); s.wi = Wire( Bits8 )\n    @update\n    def up_ch():\n      s.wi @= s.i\n      s.o @= s.wi\n\n"
  def ch(tag,lines,expected,child=CH): out.append((f"D[{tag}]",top([P,"s.c = Ch()"]+lines,pre=child),expected))
  ch('legal-parent-child',["s.c.i //= s.in0"]+blk('up_o',"s.out @= s.c.o"),None)
  ch('parent-block-writes-child-inport',blk('up_a',"s.c.i @= s.in0")+blk('up_o',"s.out @= s.c.o"),None)
  ch('parent-block-writes-child-outport',["s.c.i //= s.in0"]+blk('up_a',"s.c.o @= s.in0")+blk('up_o',"s.out @= s.in1"),('SignalTypeError','MultiWriterError'))
  for d in (1,2,3):
    ch(f'parent-helper-depth{d}-writes-child-outport',["s.c.i //= s.in0"]+helpers(d,'s.c.o')+blk('up_a',f"f{d}( s.in0 )")+blk('up_o',"s.out @= s.in1"),('SignalTypeError','MultiWriterError'))
  ch('parent-block-reads-child-wire',["s.c.i //= s.in0"]+blk('up_o',"s.out @= s.c.wi"),'SignalTypeError')
  ch('parent-block-writes-child-wire',["s.c.i //= s.in0"]+blk('up_a',"s.c.wi @= s.in0")+blk('up_o',"s.out @= s.in1"),('SignalTypeError','MultiWriterError'))
  ch('parent-block-writes-own-inport',["s.c.i //= s.in0"]+blk('up_a',"s.in1 @= s.in0")+blk('up_o',"s.out @= s.c.o"),'SignalTypeError')
  ch('parent-connects-const-to-child-outport',["s.c.i //= s.in0","s.c.o //= 7"]+blk('up_o',"s.out @= s.in1"),('SignalTypeError','MultiWriterError'))
  ch('parent-connects-const-to-child-inport',["s.c.i //= 5"]+blk('up_o',"s.out @= s.c.o"),None)
  CH2="class Ch( Component ):\n  def construct( s ):\n    s.i = InPort( Bits8 ); s.o = OutPort( Bits8 )\n    s.i //= 5\n    s.o //= s.i\n\n"
  ch('child-ties-own-inport-to-const',blk('up_o',"s.out @= s.c.o"),'SignalTypeError',child=CH2)
  CH3="class G( Component ):\n  def construct( s ):\n    s.i = InPort( Bits8 ); s.o = OutPort( Bits8 )\n    s.o //= s.i\n\nclass Ch( Component ):\n  def construct( s ):\n    s.i = InPort( Bits8 ); s.o = OutPort( Bits8 ); s.g = G()\n    s.g.i //= s.i; s.o //= s.g.o\n\n"
  ch('top-ties-grandchild-inport-to-const',["s.c.i //= s.in0","s.c.g.i //= 3"]+blk('up_o',"s.out @= s.c.o"),('SignalTypeError','MultiWriterError'),child=CH3)
  ch('top-connects-to-grandchild-port',["s.c.i //= s.in0","s.w //= s.c.g.o"]+blk('up_o',"s.out @= s.w"),'SignalTypeError',child=CH3)
  # ---- assignment operators
  out.append(("D[plain-assign-in-update]",top([P]+blk('up_a',"s.w = s.in0")+rd),'UpdateBlockWriteError'))
  out.append(("D[nonblocking-in-update]",top([P]+blk('up_a',"s.w <<= s.in0")+rd),'UpdateBlockWriteError'))
  out.append(("D[augmented-arith-in-update]",top([P]+blk('up_a',"s.w += s.in0")+rd),'UpdateBlockWriteError'))
  out.append(("D[blocking-in-update_ff]",top([P]+blk('ff_a',"s.w @= s.in0",ff=True)+rd),'UpdateFFBlockWriteError'))
  out.append(("D[plain-assign-in-update_ff]",top([P]+blk('ff_a',"s.w = s.in0",ff=True)+rd),'UpdateFFBlockWriteError'))
  out.append(("D[augmented-or-in-update_ff]",top([P]+blk('ff_a',"s.w |= s.in0",ff=True)+rd),'UpdateFFBlockWriteError'))
  out.append(("D[plain-assign-nested-after-correct]",top([P,"s.v = Wire( Bits8 )"]+blk('up_a',"if s.in0[0]:","  s.w @= s.in0","  s.v = 2","else:","  s.w @= s.in1")+rd),'UpdateBlockWriteError'))
  out.append(("D[plain-assign-nested-ff-after-correct]",top([P,"s.v = Wire( Bits8 )"]+blk('ff_a',"for i in range(2):","  s.w <<= s.in0","  s.v = 2",ff=True)+rd),'UpdateFFBlockWriteError'))
  out.append(("D[field-assign-in-update_ff]",top([P]+blk('ff_a',"s.st.q <<= s.in0",ff=True)+rd[:0]+blk('up_o',"s.out @= s.in1")),'UpdateFFNonTopLevelSignalError'))
  return out

# ---------------------------------------------------------------------------------------------- family E: connection graphs (C08)
def family_E(max_perms=6):
  """connect statements between signals / slices / struct fields / constants over a two-level hierarchy: every permutation (up to a cap) and
  side flip must give the same nets = connected components and the same single justified writer."""
  import itertools, random
  base=[]
  # (name, declarations, connect pairs (lhs,rhs), block statements driving some member, expected groups of top-level-ish member names)
  base.append(('chain',"s.a = Wire( Bits8 ); s.b = Wire( Bits8 ); s.c = Wire( Bits8 )",[("s.a","s.in0"),("s.b","s.a"),("s.c","s.b")],[],"s.out @= s.c"))
  base.append(('star-const',"s.a = Wire( Bits8 ); s.b = Wire( Bits8 )",[("s.a","11"),("s.b","s.a")],[],"s.out @= s.b"))
  base.append(('block-driven',"s.a = Wire( Bits8 ); s.b = Wire( Bits8 ); s.c = Wire( Bits8 )",[("s.b","s.a"),("s.c","s.a")],["s.a @= s.in0 + 1"],"s.out @= s.b ^ s.c"))
  base.append(('slices',"s.a = Wire( Bits8 ); s.b = Wire( Bits4 ); s.c = Wire( Bits4 )",[("s.a","s.in0"),("s.b","s.a[0:4]"),("s.c","s.a[4:8]")],[],"s.out[0:4] @= s.b\n      s.out[4:8] @= s.c"))
  base.append(('slice-of-slice',"s.a = Wire( Bits4 ); s.b = Wire( Bits4 )",[("s.a","s.in0[6:10]"),("s.b","s.in0[4:12][2:6]")],[],"s.out[0:4] @= s.a\n      s.out[4:8] @= s.b"))
  base.append(('struct-fields',"s.m = Wire( Outer ); s.x = Wire( Bits4 ); s.y = Wire( Bits8 )",[("s.m.p.x","s.in0[0:4]"),("s.m.p.y","s.in0[4:8]"),("s.m.q","s.in1"),("s.x","s.m.p.x"),("s.y","s.m.q")],[],"s.out @= s.y"))
  base.append(('struct-whole-and-deep-field',"s.m = Wire( Outer ); s.n = Wire( Outer )",[("s.m.p.x","s.in0[0:4]"),("s.m.p.y","s.in0[4:8]"),("s.m.q","s.in1"),("s.n","s.m")],[],"s.out @= s.n.q"))
  base.append(('deep-fields-only-and-whole',"s.m = Wire( Deep ); s.n = Wire( Deep )",[("s.m.p.x","s.in0[0:4]"),("s.m.p.y","s.in0[4:8]"),("s.n","s.m")],[],"s.out[0:4] @= s.n.p.x\n      s.out[4:8] @= s.n.p.y"))
  base.append(('child-ports',"s.f = Fwd( Bits8 ); s.g = Fwd( Bits8 ); s.a = Wire( Bits8 )",[("s.f.in_","s.in0"),("s.g.in_","s.f.out"),("s.a","s.g.out")],[],"s.out @= s.a"))
  # non-zero constants tied to a slice / to a Bits field of a struct (the rest of the signal driven through other nets)
  base.append(('const-slice',"s.a = Wire( Bits8 )",[("s.a[0:4]","5"),("s.a[4:8]","s.in0[0:4]")],[],"s.out @= s.a"))
  base.append(('const-field',"s.m = Wire( Outer )",[("s.m.q","90"),("s.m.p.x","s.in0[0:4]"),("s.m.p.y","s.in0[4:8]")],[],"s.out @= s.m.q"))
  out=[]
  rng=random.Random(7)
  for name,decl,conns,drv,rd in base:
    perms=list(itertools.permutations(range(len(conns))))
    rng.shuffle(perms); perms=[tuple(range(len(conns)))]+perms[:max_perms-1]
    for pi,perm in enumerate(perms):
      for flip in (0,1,2):
        L=["class Top( Component ):","  def construct( s ):","    s.in0 = InPort( Bits16 ) if False else InPort( Bits8 ); s.in1 = InPort( Bits8 ); s.out = OutPort( Bits8 )"]
        if name=='slice-of-slice': L[2]="    s.in0 = InPort( Bits16 ); s.in1 = InPort( Bits8 ); s.out = OutPort( Bits8 )"
        L.append("    "+decl)
        for j,ci in enumerate(perm):
          l,r=conns[ci]
          swap = (flip==1) or (flip==2 and j%2==1)
          if swap and not r.isdigit(): l,r=r,l
          use_connect = (j+pi)%2 or l.count('.')>1 or l.isdigit() or '[' in l      # the DSL has no //= on struct-field / constant left-hand sides
          L.append(f"    connect( {l}, {r} )" if use_connect else f"    {l} //= {r}")
        if drv:
          L+=["    @update","    def up_drv():"]+["      "+d for d in drv]
        L+=["    @update","    def up_o():","      "+rd]
        out.append((f"E[{name};p{pi};f{flip}]",'\n'.join(L)+'\n',name))
  return out
