"""C16 bounded stand-in: the VCD file and the text-wave record written by the real passes, read back by an independent parser, against the
values the simulator held at every cycle; plus the VCD symbol generator (extracted mechanically from the real source) over its first 10^5 symbols."""
import sys, os, ast, random, tempfile, textwrap

def parse_vcd(text):
  """returns (vars: {(scope tuple, name): (symbol, width)}, changes: {symbol: [(time, int value)]})"""
  scope=[]; vars_={}; changes={}; t=-1; in_defs=True      # t=-1: initial-value section before the first timestamp
  toks=text.split('\n')
  for ln in toks:
    ln=ln.strip()
    if not ln: continue
    if in_defs:
      if ln.startswith('$scope'): scope.append(ln.split()[2])
      elif ln.startswith('$upscope'): scope.pop()
      elif ln.startswith('$var'):
        p=ln.split(); vars_[(tuple(scope),p[4])]=(p[3],int(p[2]))
      elif ln.startswith('$enddefinitions'): in_defs=False
      continue
    if ln.startswith('#'): t=int(ln[1:]); continue
    if ln.startswith('$'): continue
    if ln[0] in 'bB':
      v,sym=ln[1:].split(); changes.setdefault(sym,[]).append((t,int(v,2)))
    elif ln[0] in '01xz':
      changes.setdefault(ln[1:],[]).append((t,int(ln[0]) if ln[0] in '01' else -1))
  return vars_,changes

def value_at(chs,time):
  v=None
  for (t,x) in chs:
    if t<=time: v=x
    else: break
  return v

def vcd_mangle(name): return name.replace('[','(').replace(']',')').replace(':','__')

def check_vcd(name,Top,seed,ncycles=8):
  from pymtl3 import DefaultPassGroup
  from pymtl3.dsl.Connectable import Signal
  out=[]
  d=tempfile.mkdtemp(prefix='vcd',dir=os.path.join(os.path.dirname(os.path.dirname(os.path.abspath(__file__))),'out'))
  base=os.path.join(d,'wave')
  try:
    top=Top(); top.elaborate()
    sigs=sorted({x.get_top_level_signal() for x in top.get_all_object_filter(lambda x: isinstance(x,Signal))},key=repr)
    info=[]
    for x in sigs:
      host=x.get_host_component(); hp=repr(host); path=['top']+([vcd_mangle(p) for p in _scope_names(host,top)])
      info.append((repr(x),tuple(path),vcd_mangle(repr(x)[len(hp)+1:]),x._dsl.Type.nbits))
    inputs=[(repr(x),x._dsl.Type.nbits) for x in sorted(top.get_input_value_ports(),key=repr) if repr(x) not in('s.clk',)]
    top.apply(DefaultPassGroup(vcdwave=base,textwave=True))
    rng=random.Random(seed); snaps=[]
    for t in range(ncycles):
      for nm,w in inputs:
        v=(1 if t<2 else 0) if nm=='s.reset' else rng.choice([rng.getrandbits(w),0,(1<<w)-1,rng.getrandbits(w)])
        if nm=='s.sel': v=[0,1,2,0,3,1,4,2,5,0,2,1][t%12]        # walks through values whose (width,value) hashes coincide
        exec(f"{nm} @= {v}",{'s':top})
      top.sim_eval_combinational()
      snaps.append({nm:_val(top,nm) for nm,_,_,_ in info})
      top.sim_tick()
    from pymtl3.passes.tracing.PrintTextWavePass import PrintTextWavePass
    tw=top.get_metadata(PrintTextWavePass.textwave_dict) if top.has_metadata(PrintTextWavePass.textwave_dict) else None
    text=open(base+'.vcd').read()
    vars_,changes=parse_vcd(text)
    syms={}
    for nm,path,sname,w in info:
      ent=vars_.get((path,sname))
      if ent is None: out.append(f"signal {nm} has no $var entry in the VCD file (looked for scope {path} name {sname})"); continue
      if ent[1]!=w: out.append(f"signal {nm} is declared {ent[1]} bits wide in the VCD file, it is {w} bits wide")
      syms[nm]=ent[0]
    clk=syms.get('s.clk')
    for t in range(ncycles):
      for nm,sym in syms.items():
        if sym==clk: continue          # the clock net is driven by the dumper itself (checked below)
        got=value_at(changes.get(sym,[]),100*t)
        if got!=snaps[t][nm]:
          out.append(f"cycle {t}: the VCD file gives {nm} = {got} but the simulator held {snaps[t][nm]}"); break
      if out: break
    if clk:
      ev=[(t,v) for t,v in changes.get(clk,[]) if t>=0]
      want=[(0,1)]+[x for n in range(ncycles) for x in ((100*n+50,0),(100*n+100,1))]
      if ev!=want: out.append(f"the clock does not toggle exactly once per cycle: {ev[:8]} ...")
    if tw is not None:
      for nm in syms:
        rec=tw.get(nm)
        if syms[nm]==clk: continue
        if nm!='s.reset' and nm.split('.')[-1] in('clk','reset'): continue       # by design the text wave keeps one clock/reset (they are one net)
        if rec is None or len(rec)<ncycles:
          out.append(f"the text-wave record holds {0 if rec is None else len(rec)} cycles of {nm}, {ncycles} cycles were simulated"); break
        for t in range(ncycles):
          s_=rec[t]; v=int(s_[2:],2) if s_.startswith('0b') else int(s_,2)
          if v!=snaps[t][nm]: out.append(f"cycle {t}: the text-wave record gives {nm} = {v} but the simulator held {snaps[t][nm]}"); break
  finally:
    import shutil; shutil.rmtree(d,ignore_errors=True)
  return out

def _scope_names(host,top):
  names=[]; h=host
  while h is not top:
    names.append(h.get_field_name()); h=h.get_parent_object()
  return names[::-1]

def _val(top,name):
  v=eval(name,{'s':top})
  if hasattr(v,'to_bits'): v=v.to_bits()
  return int(v)

def check_symbols(repo,count=100000):
  """the VCD symbol generator, extracted from the real source text of VcdGenerationPass.make_vcd_func: first `count` symbols are pairwise
  distinct and made of printable non-space ASCII."""
  src=open(os.path.join(repo,'pymtl3/passes/tracing/VcdGenerationPass.py')).read()
  tree=ast.parse(src); fn=None
  for n in ast.walk(tree):
    if isinstance(n,ast.FunctionDef) and n.name=='_gen_vcd_symbol': fn=n
  if fn is None: return ["cannot extract _gen_vcd_symbol from VcdGenerationPass.py"]
  ns={}; exec(compile(ast.Module([fn],[]),'<_gen_vcd_symbol>','exec'),ns)
  g=ns['_gen_vcd_symbol'](); seen={}
  for i in range(count):
    s=next(g)
    if s in seen: return [f"VCD symbol #{i} equals symbol #{seen[s]} ({s!r}): two nets would share one identifier"]
    if not s or any(not(33<=ord(c)<=126) for c in s): return [f"VCD symbol #{i} ({s!r}) is not printable non-space ASCII"]
    seen[s]=i
  return []

EXTRA='''
class Stage( Component ):
  def construct( s ):
    s.in_ = InPort( Bits8 ); s.out = OutPort( Bits8 )
    @update_ff
    def ff_stage(): s.out <<= s.in_

class Top( Component ):
  def construct( s ):
    s.in0 = InPort( Bits8 ); s.out = OutPort( Bits8 ); s.never = Wire( Bits4 ); s.st = Wire( Outer ); s.shared = Wire( Bits8 )
    s.stages = [ Stage() for _ in range(%d) ]
    s.stages[0].in_ //= s.in0
    for i in range(1,%d): s.stages[i].in_ //= s.stages[i-1].out
    s.out //= s.stages[-1].out
    s.shared //= s.in0
    @update
    def up_st():
      s.st.p.x @= s.in0[0:4]; s.st.p.y @= s.in0[4:8]; s.st.q @= s.in0
'''
WIDE='''
class Top( Component ):
  def construct( s ):
    s.sel = InPort( Bits3 ); s.mask = OutPort( Bits64 ); s.q = OutPort( Bits64 ); s.r = Wire( Bits64 )
    @update
    def up_mask():
      if   s.sel == 0: s.mask @= 0
      elif s.sel == 1: s.mask @= 0x1fffffffffffffff
      elif s.sel == 2: s.mask @= 0x3ffffffffffffffe
      elif s.sel == 3: s.mask @= 0xffffffffffffffff
      elif s.sel == 4: s.mask @= 0x1ffffffffffffffe
      else:            s.mask @= 1
    @update_ff
    def ff_r(): s.r <<= s.mask
    s.q //= s.r
'''
IFC='''
class BusIfc( Interface ):
  def construct( s, T ):
    s.msg = InPort( T ); s.val = InPort( Bits1 ); s.rdy = OutPort( Bits1 )

class Leaf( Component ):
  def construct( s ):
    s.reqs = BusIfc( Bits8 ); s.as_ = OutPort( Bits8 ); s.s = Wire( Bits8 )
    @update
    def up_leaf():
      s.reqs.rdy @= ~s.reqs.val
      s.s @= s.reqs.msg + 1
      s.as_ @= s.s

class Top( Component ):
  def construct( s ):
    s.bus = BusIfc( Bits8 ); s.ios = [ BusIfc( Bits8 ) for _ in range(2) ]; s.out = OutPort( Bits8 ); s.outs = [ OutPort( Bits8 ) for _ in range(2) ]
    s.cs = [ Leaf() for _ in range(2) ]; s.ss = Leaf()
    s.ss.reqs.msg //= s.bus.msg; s.ss.reqs.val //= s.bus.val; s.bus.rdy //= s.ss.reqs.rdy; s.out //= s.ss.as_
    for i in range(2):
      s.cs[i].reqs.msg //= s.ios[i].msg; s.cs[i].reqs.val //= s.ios[i].val; s.ios[i].rdy //= s.cs[i].reqs.rdy; s.outs[i] //= s.cs[i].as_
'''
def vcd_designs():
  from zoo import designs
  out=[(n,b) for n,b in designs.family_A()[::9]]+list(designs.family_C())+[("V[delay96]",EXTRA%(96,96)),("V[delay10]",EXTRA%(10,10)),("V[wide64]",WIDE),("V[interfaces]",IFC)]
  return out
