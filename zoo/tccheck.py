"""C10 bounded stand-in: a family of update blocks (binary/compare/conditional/assignment/loop/temporary shapes over explicitly sized signals
and integer literals).  For each block: if the RTLIR type checker accepts it, simulating it over an input grid never raises a bitwidth or
implicit-truncation error; if its simulation raises a width mismatch between explicitly sized operands, the checker rejects it."""
import sys, itertools

ATOMS={'in4':4,'in8':8,'sl4':4}        # s.in4, s.in8, s.in8[0:4]
EXPR={'in4':'s.in4','in8':'s.in8','sl4':'s.in8[0:4]'}
LITS=[0,3,15,16,255,256]

def blocks():
  """(name, body lines of the update block, uses_loop)"""
  out=[]
  atoms=list(EXPR)+[str(l) for l in LITS]
  ex=lambda a: EXPR.get(a,a)
  for lhs in ('out4','out8'):
    for a in atoms:
      out.append((f"assign[{lhs}={a}]",[f"s.{lhs} @= {ex(a)}"]))
    for op in ('+','&','==','<'):
      for a,b in itertools.product(atoms,atoms):
        if a.isdigit() and b.isdigit(): continue
        if op in('==','<'): body=[f"s.out1 @= {ex(a)} {op} {ex(b)}"]; nm=f"cmp[{a}{op}{b}]"
        else: body=[f"s.{lhs} @= {ex(a)} {op} {ex(b)}"]; nm=f"bin[{lhs}={a}{op}{b}]"
        if (nm,body) not in [(n,b) for n,b in out]: out.append((nm,body))
    for a,b in itertools.product(atoms,atoms):
      if a.isdigit() and b.isdigit(): continue
      out.append((f"ifexp[{lhs}={a}?{b}]",[f"s.{lhs} @= {ex(a)} if s.c else {ex(b)}"]))
      for c in ('in4','in8'):
        out.append((f"ifexp-op[{lhs}=({a}?{b})+{c}]",[f"s.{lhs} @= ( {ex(a)} if s.c else {ex(b)} ) + {ex(c)}"]))
    for (lo,hi,st) in ((0,4,1),(4,0,-1),(0,16,1),(15,0,-1),(6,0,-1),(0,3,1)):
      for a in ('in4','in8'):
        out.append((f"loop[{lhs}={a}+i;{lo},{hi},{st}]",[f"for i in range({lo},{hi},{st}):",f"  s.{lhs} @= {ex(a)} + i"]))
  for (lo,hi,st) in ((0,4,1),(4,0,-1),(3,0,-1),(0,5,1),(5,0,-2),(0,3,1)):
    out.append((f"loop2[out2=in2+i;{lo},{hi},{st}]",[f"for i in range({lo},{hi},{st}):",f"  s.out2 @= s.in2 + i"]))
    out.append((f"looptmp[u=i;{lo},{hi},{st}]",[f"for i in range({lo},{hi},{st}):",f"  u = i",f"  s.out2 @= s.in2 & u"]))
    for a in atoms:
      for b in ('in4','in8'):
        out.append((f"tmp[{lhs}=u({a})+{b}]",[f"u = {ex(a)}",f"s.{lhs} @= u + {ex(b)}"]))
  # ---- struct-typed signals (whole struct <-> Bits of equal / different width, fields as operands) and comparison results used as operands
  for lhs,rhs in (('out4','st8'),('out8','st8'),('out16','st8'),('ost8','in8'),('ost8','in4'),('ost8','st8'),('out4','st8.x'),('out8','st8.x'),('ost8.x','in4'),('ost8.x','in8'),('ost8.y','st8.x'),
                  ('out16','st16'),('out8','st16'),('out8','st16.q'),('out4','st16.p.x'),('out8','st16.p'),('out4','st16.p')):
    out.append((f"struct-assign[{lhs}={rhs}]",[f"s.{lhs} @= s.{rhs}"]))
  for lhs,a,b in (('out4','s.st8.x','s.in4'),('out4','s.st8.x','s.in8'),('out8','s.st8.x','s.in8'),('out8','s.st16.q','s.in8'),('out8','s.st16.q','s.st8.x'),('out4','s.st16.p.y','s.st8.x')):
    for op in ('+','&'):
      out.append((f"struct-bin[{lhs}={a}{op}{b}]",[f"s.{lhs} @= {a} {op} {b}"]))
  for lhs,w in (('out8','s.in8'),('out4','s.in4'),('out1','s.c')):
    for cmp in ('s.in4 == s.in4','s.in8 >= s.in8','s.in4 < 3'):
      for op in ('&','+','^','=='):
        tgt='out1' if op=='==' else lhs
        out.append((f"cmp-operand[{tgt}={w}{op}({cmp})]",[f"s.{tgt} @= {w} {op} ( {cmp} )"]))
        out.append((f"cmp-operand[{tgt}=({cmp}){op}{w}]",[f"s.{tgt} @= ( {cmp} ) {op} {w}"]))
  seen=set(); uniq=[]
  for n,b in out:
    if n not in seen: seen.add(n); uniq.append((n,b))
  return uniq

def source(body):
  L=["class Top( Component ):","  def construct( s ):","    s.c = InPort( Bits1 ); s.in4 = InPort( Bits4 ); s.in8 = InPort( Bits8 ); s.in2 = InPort( Bits2 ); s.out2 = OutPort( Bits2 )",
     "    s.out1 = OutPort( Bits1 ); s.out4 = OutPort( Bits4 ); s.out8 = OutPort( Bits8 )",
     "    s.st8 = InPort( Inner ); s.st16 = InPort( Outer ); s.ost8 = OutPort( Inner ); s.out16 = OutPort( Bits16 )","    @update","    def up():"]+["      "+b for b in body]
  return '\n'.join(L)+'\n'

WIDTH_MSG=("must have matching bitwidth","Bitwidth of LHS must be equal to RHS","-bit <> RHS")
TRUNC_MSG=("is not a valid binop operand","is too wide","too wide for")

def check_block(name,body,repo):
  if repo not in sys.path: sys.path.insert(0,repo)
  from zoo import designs
  from pymtl3 import DefaultPassGroup
  from pymtl3.passes.rtlir.behavioral import BehavioralRTLIRGenPass, BehavioralRTLIRTypeCheckPass
  from pymtl3.passes.rtlir.errors import PyMTLTypeError, PyMTLSyntaxError
  Top,src=designs.load(name,source(body))
  # ---- static verdict
  m=Top(); m.elaborate()
  try:
    m.apply(BehavioralRTLIRGenPass(m)); m.apply(BehavioralRTLIRTypeCheckPass(m)); accepted=True; why=''
  except (PyMTLTypeError,PyMTLSyntaxError) as e: accepted=False; why=str(e)[-80:]
  # ---- dynamic behaviour over an input grid
  top=Top(); top.elaborate(); top.apply(DefaultPassGroup())
  explicit_mismatch=None; other_width_error=None
  for c in (None,0,1):
    for a4 in (0,9,15):
      for a8 in (0,1,200,255):
        try:
          if c is None: top.sim_reset()
          else:
            top.c @= c; top.in4 @= a4; top.in8 @= a8; top.in2 @= a4 & 3
            M=sys.modules[Top.__module__]; top.st8 @= M.Inner(a4,15-a4); top.st16 @= M.Outer(M.Inner(a4,a8&15),a8)
            top.sim_eval_combinational()
        except (ValueError,AssertionError) as e:
          msg=str(e)
          if any(w in msg for w in WIDTH_MSG): explicit_mismatch=explicit_mismatch or (c or 0,a4,a8,msg.strip()[:90])
          elif any(w in msg for w in TRUNC_MSG): other_width_error=other_width_error or (c or 0,a4,a8,msg.strip()[:90])
          else: raise
  out=[]
  if accepted and explicit_mismatch: out.append(f"accepted by the type checker, but simulation with (c,in4,in8)={explicit_mismatch[:3]} raises a width mismatch between explicitly sized operands: {explicit_mismatch[3]!r}")
  elif accepted and other_width_error: out.append(f"accepted by the type checker, but simulation with (c,in4,in8)={other_width_error[:3]} raises an implicit-truncation error: {other_width_error[3]!r}")
  return out,accepted
