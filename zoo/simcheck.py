"""Executable contracts of the pass pipeline, evaluated on the design zoo (bounded stand-ins; never counted as proved).

 sim      : for every scheduling pass group and tie-break seed the settled values of all signals agree, re-running any
            block after evaluation changes nothing, cyclic designs either settle on a fixed point or raise UpblkCyclicError  (C01, C11)
 dag      : GenDAGPass orders every writer before every bit-overlapping reader; constraint_objs covers the communicated bits;
            every scheduler places each block exactly once and respects all_constraints                                      (C02)
 flip     : the generated double-buffer function flips every signal written with <<= exactly once; register traces equal the
            pre-edge reference model for every order of the update_ff blocks                                                (C07)
"""
import sys, os, random, itertools, linecache, traceback

def _imports(repo):
  if repo not in sys.path: sys.path.insert(0,repo)

def signal_names(top):
  from pymtl3.dsl.Connectable import Signal
  return sorted({repr(x.get_top_level_signal()) for x in top.get_all_object_filter(lambda x: isinstance(x,Signal))})

def val(top,name):
  v=eval(name,{'s':top})
  if hasattr(v,'to_bits'): v=v.to_bits()
  return int(v)

def snapshot(top,names): return {n:val(top,n) for n in names}

def pass_groups(cyclic):
  """name -> callable(top) applying a simulation pass group; `seeded` ones draw their tie-breaks from random.seed(k)."""
  from pymtl3.passes.PassGroups import DefaultPassGroup, SimpleSimPass
  from pymtl3.passes.mamba.PassGroups import Mamba2020, HeuTopoUnrollSim, UnrollSim
  def seeded(P,k):
    def f(top):
      random.seed(k); top.apply(P())
    return f
  g={'default':lambda top: top.apply(DefaultPassGroup()), 'mamba2020':lambda top: top.apply(Mamba2020()), 'unroll':lambda top: top.apply(UnrollSim())}
  for k in range(4): g[f'simple#{k}']=seeded(SimpleSimPass,k)
  g['heutopo']=lambda top: top.apply(HeuTopoUnrollSim())
  return g

def drive(top,rng,inputs):
  for nm,w in inputs:
    exec(f"{nm} @= {rng.getrandbits(w)}",{'s':top})

def input_ports(top):
  return [(repr(x),x._dsl.Type.nbits) for x in sorted(top.get_input_value_ports(),key=repr) if repr(x) not in('s.clk','s.reset')]

def run_sim(Top,apply,seed,ncycles,one_at_a_time=False):
  """returns (trace of snapshots per cycle [after comb eval], fixpoint violations)"""
  top=Top(); top.elaborate()
  names=signal_names(top); inputs=input_ports(top)
  apply(top); top.sim_reset()
  rng=random.Random(seed); trace=[]; viol=[]
  comb=[b for b in top._dag.final_upblks if b not in top.get_all_update_ff()]
  for t in range(ncycles):
    if one_at_a_time and t>0:
      nm,w=inputs[t%len(inputs)]; exec(f"{nm} @= {rng.getrandbits(w)}",{'s':top})
    else: drive(top,rng,inputs)
    top.sim_eval_combinational()
    snap=snapshot(top,names)
    for b in sorted(comb,key=lambda b:b.__name__):
      b(); s2=snapshot(top,names)
      if s2!=snap:
        d={n:(snap[n],s2[n]) for n in names if snap[n]!=s2[n]}
        viol.append(f"cycle {t}: re-running {b.__name__} after evaluation changed {d}"); break
    trace.append(snap)
    top.sim_tick()
  return trace,viol

def check_sim(name,Top,kind,seed,ncycles=6):
  """kind: 'acyclic' | 'false_loop' | 'true_loop'. returns list of violation strings."""
  from pymtl3.dsl.errors import UpblkCyclicError
  out=[]; traces={}
  if kind=='reject':
    # a cycle without a value-carrying signal, or with an update_once block on it: every scheduler must refuse (C02 / C11)
    for pg,apply in pass_groups(True).items():
      try:
        top=Top(); top.elaborate(); apply(top)
        out.append(f"{pg}: the design was scheduled ({[getattr(b,'__name__',b) for b in top._sched.update_schedule]}) although its cycle has no value-carrying signal / contains an update_once block: UpblkCyclicError expected")
      except UpblkCyclicError: pass
      except Exception as e:
        if pg in('default','mamba2020'): out.append(f"{pg}: {type(e).__name__} instead of UpblkCyclicError: {str(e)[:100]}")
    return out
  for pg,apply in pass_groups(kind!='acyclic').items():
    cyc_capable = pg in('default','mamba2020')
    for oat in ((False,True) if kind!='acyclic' else (False,)):
      try:
        tr,viol=run_sim(Top,apply,seed,ncycles,oat)
      except UpblkCyclicError as e:
        if kind=='acyclic' or cyc_capable: out.append(f"{pg}: UpblkCyclicError on a design that must simulate: {str(e)[:80]}")
        continue
      except Exception as e:
        if kind!='acyclic' and not cyc_capable: continue     # schedulers without cycle support reject the design (graphviz may be missing: any error)
        out.append(f"{pg}: {type(e).__name__}: {str(e)[:120]}"); continue
      if kind!='acyclic' and not cyc_capable:
        out.append(f"{pg}: a cyclic design was scheduled by a scheduler without cycle support instead of being rejected"); continue
      for v in viol: out.append(f"{pg}{' (one input at a time)' if oat else ''}: {v}")
      traces[(pg,oat)]=tr
  if kind in('acyclic','false_loop'):
    for oat in (False,True):
      items=[(k,v) for k,v in traces.items() if k[1]==oat]
      for (k,v) in items[1:]:
        if v!=items[0][1]:
          t=next(i for i in range(len(v)) if v[i]!=items[0][1][i])
          d={n:(items[0][1][t][n],v[t][n]) for n in v[t] if v[t][n]!=items[0][1][t][n]}
          out.append(f"{k[0]} disagrees with {items[0][0][0]} at cycle {t}: {d}")
  return out

# ------------------------------------------------------------------------------------------------ dag / schedule contracts (C02)
def footprint(x):
  from rtlvc.bvsem import locate_in, type_nbits
  t=x.get_top_level_signal()
  lo,hi=(0,type_nbits(t._dsl.Type)) if x is t else locate_in(x,t)
  return t,lo,hi
def overlap(a,b):
  return a[0] is b[0] and a[1]<b[2] and b[1]<a[2]

def check_dag(name,Top):
  from pymtl3.passes.sim.GenDAGPass import GenDAGPass
  from pymtl3.dsl import Const
  out=[]
  top=Top(); top.elaborate(); top.apply(GenDAGPass())
  rd,wr,_=top.get_all_upblk_metadata()
  ff=top.get_all_update_ff()
  R={}; W={}
  for b in top.get_all_update_blocks(): R[b]=[footprint(x) for x in rd.get(b,[])]; W[b]=[footprint(x) for x in wr.get(b,[])]
  for b in top._dag.genblks:
    R[b]=[footprint(x) for x in top._dag.genblk_reads.get(b,[]) if not isinstance(x,Const)]
    W[b]=[footprint(x) for x in top._dag.genblk_writes.get(b,[])]
  C=top._dag.all_constraints; objs=top._dag.constraint_objs
  blocks=[b for b in R if b not in ff]
  for A in blocks:
    for B in blocks:
      if A is B: continue
      for fw in W[A]:
        for fr in R[B]:
          if not overlap(fw,fr): continue
          if (A,B) not in C:
            out.append(f"writer {A.__name__} of {fw[0]!r}[{fw[1]}:{fw[2]}] is not ordered before reader {B.__name__} of [{fr[1]}:{fr[2]}]"); continue
          lo,hi=max(fw[1],fr[1]),min(fw[2],fr[2])
          if not any(overlap(footprint(o),(fw[0],lo,hi)) for o in objs.get((A,B),())):
            out.append(f"constraint_objs[{A.__name__},{B.__name__}] does not cover the communicated bits {fw[0]!r}[{lo}:{hi}]")
  return out,top

def check_schedules(name,Top,cyclic):
  from pymtl3.passes.sim.GenDAGPass import GenDAGPass
  from pymtl3.passes.sim.SimpleSchedulePass import SimpleSchedulePass
  from pymtl3.passes.sim.DynamicSchedulePass import DynamicSchedulePass
  from pymtl3.passes.sim.SimpleTickPass import SimpleTickPass
  from pymtl3.passes.mamba.HeuristicTopoPass import HeuristicTopoPass
  out=[]
  def members(f,V):
    if f in V: return [f]
    g=getattr(f,'__globals__',{})
    t=g.get('scc_tick_func')
    return list(getattr(t,'_vc_members',[])) if t is not None else []
  orig=SimpleTickPass.gen_tick_function
  def wrapped(schedule):
    f=orig(schedule); f._vc_members=list(schedule); return f
  SimpleTickPass.gen_tick_function=staticmethod(wrapped)
  try:
    cases=[('dynamic',DynamicSchedulePass,0)]
    if not cyclic: cases+=[('simple',SimpleSchedulePass,k) for k in range(6)]+[('heutopo',HeuristicTopoPass,0)]
    for pname,P,k in cases:
      top=Top(); top.elaborate(); top.apply(GenDAGPass())
      random.seed(k)
      try: top.apply(P())
      except Exception as e:
        out.append(f"{pname}: {type(e).__name__}: {str(e)[:100]}"); continue
      V=set(top._dag.final_upblks)-set(top.get_all_update_ff())
      sched=top._sched.update_schedule
      pos={}; count={v:0 for v in V}
      for i,f in enumerate(sched):
        ms=members(f,V)
        if not ms: out.append(f"{pname}#{k}: schedule entry {getattr(f,'__name__',f)} has no known member block"); continue
        for m in set(ms):
          if m in count: count[m]+=1; pos[m]=i
      for v,c in count.items():
        if c!=1: out.append(f"{pname}#{k}: block {v.__name__} is scheduled {c} times")
      for (u,v) in top._dag.all_constraints:
        if u in pos and v in pos and pos[u]!=pos[v] and not pos[u]<pos[v]:
          out.append(f"{pname}#{k}: constraint {u.__name__} < {v.__name__} is not respected (positions {pos[u]}, {pos[v]})")
  finally:
    SimpleTickPass.gen_tick_function=orig
  return out

# ------------------------------------------------------------------------------------------------ flip contract (C07)
def check_flip(name,Top):
  from pymtl3.passes.sim.GenDAGPass import GenDAGPass
  from pymtl3.passes.sim.SimpleSchedulePass import SimpleSchedulePass
  out=[]
  top=Top(); top.elaborate(); top.apply(GenDAGPass())
  linecache.cache.pop('ff_flips',None)
  from pymtl3.passes.BasePass import PassMetadata
  top._sched=PassMetadata()
  SimpleSchedulePass().schedule_posedge_flip(top)
  want=sorted(repr(x) for x in top._dsl.all_signals if x._dsl.needs_double_buffer)
  got=[]
  ent=linecache.cache.get('ff_flips')
  if ent:
    base=None
    for ln in ent[2]:
      ln=ln.strip()
      if ln.startswith('x = '): base=ln[4:]
      elif ln.endswith('._flip()'):
        tgt=ln[:-len('._flip()')]
        got.append(base+tgt[1:] if tgt.startswith('x.') else tgt)
  if sorted(got)!=want:
    out.append(f"double-buffer function flips {sorted(got)} but the signals written with <<= are {want}")
  return out

REG_REF={
 'bits':   lambda st,i: dict(r0=(i['in0']+st['r1'])%256, r1=(st['r0'] if i['in1']&1 else st['r1'])),
 'two_blocks': lambda st,i: dict(r0=(st['r2']+i['in0'])%256, r1=st['r0'], r2=st['r1']^i['in1']),
}

def check_ff_orders(name,Top,kind,seed,ncycles=6):
  """register traces do not depend on the order in which update_ff blocks run (and equal the pre-edge reference where one is given)."""
  from pymtl3.passes.sim.GenDAGPass import GenDAGPass
  from pymtl3.passes.sim.WrapGreenletPass import WrapGreenletPass
  from pymtl3.passes.sim.DynamicSchedulePass import DynamicSchedulePass
  from pymtl3.passes.sim.PrepareSimPass import PrepareSimPass
  out=[]; traces=[]
  t0=Top(); t0.elaborate(); nff=len(t0.get_all_update_ff())
  perms=list(itertools.permutations(range(nff)))[:6]
  for perm in perms:
    def apply(top,perm=perm):
      top.apply(GenDAGPass()); top.apply(WrapGreenletPass()); top.apply(DynamicSchedulePass())
      ffs=sorted(top._sched.schedule_ff,key=lambda b:b.__name__)
      top._sched.schedule_ff=[ffs[i] for i in perm]
      top.apply(PrepareSimPass(print_line_trace=False))
    try: tr,viol=run_sim(Top,apply,seed,ncycles)
    except Exception as e: out.append(f"ff order {perm}: {type(e).__name__}: {str(e)[:100]}"); continue
    traces.append((perm,tr))
  for perm,tr in traces[1:]:
    if tr!=traces[0][1]: out.append(f"register trace depends on the order of update_ff blocks: {perm} vs {traces[0][0]}")
  ref=REG_REF.get(kind)
  if ref and traces:
    tr=traces[0][1]
    for t in range(len(tr)-1):
      st={k[2:]:v for k,v in tr[t].items()}; nxt=ref(st,st)
      for r,v in nxt.items():
        if tr[t+1]['s.'+r]!=v: out.append(f"cycle {t}: register {r} became {tr[t+1]['s.'+r]} but the pre-edge reference gives {v}"); break
  return out

# ------------------------------------------------------------------------------------------------ structural defects (C09)
def check_defect(name,Top,expected):
  import pymtl3.dsl.errors as E
  try:
    top=Top(); top.elaborate()
  except Exception as e:
    if expected is None: return [f"a design without structural defect fails elaboration with {type(e).__name__}: {str(e)[:100]!r}"]
    exp=expected if isinstance(expected,(tuple,list)) else (expected,)      # two simultaneous defects: either corresponding error is acceptable
    if not any(isinstance(e,getattr(E,x)) for x in exp): return [f"elaboration failed with {type(e).__name__} instead of {'/'.join(exp)}: {str(e)[:80]!r}"]
    return []
  if expected is not None: return [f"the design was accepted but must be rejected with {expected}"]
  return []

# ------------------------------------------------------------------------------------------------ nets (C08)
def net_signature(top):
  """canonical description of the nets: frozenset of (writer repr, frozenset of member reprs)."""
  nets=set()
  for w,sigs in top.get_all_value_nets():
    nets.add((repr(w),frozenset(repr(x) for x in sigs)))
  return frozenset(nets)

def check_nets(group):
  """group: list of (name, Top) that are permutations / side flips of one connection multiset. All must elaborate to the same nets and
  writers; every net has exactly one writer which is one of its members; simulation gives every member the writer's value."""
  out=[]; sigs=[]
  for name,Top in group:
    try:
      top=Top(); top.elaborate(); s=net_signature(top)
    except Exception as e:
      out.append(f"{name}: elaboration failed with {type(e).__name__}: {str(e)[:100]!r}"); continue
    for w,members in s:
      if w=='None': out.append(f"{name}: net {sorted(members)} has no writer")
      elif w not in members: out.append(f"{name}: writer {w} is not a member of its net {sorted(members)}")
    sigs.append((name,s))
  for name,s in sigs[1:]:
    if s!=sigs[0][1]:
      d=sorted((w,sorted(m)) for w,m in (s^sigs[0][1]))
      out.append(f"{name} and {sigs[0][0]} (same connections, other order/sides) elaborate to different nets/writers: {d[:4]}")
  return out

def check_net_values(name,Top,seed,ncycles=3):
  """every member of a net carries the writer's value after evaluation."""
  from pymtl3 import DefaultPassGroup
  from pymtl3.dsl import Const
  from rtlvc.bvsem import locate_in, type_nbits
  out=[]
  top=Top(); top.elaborate()
  nets=[(w,list(m)) for w,m in top.get_all_value_nets()]
  def rng_of(x):
    t=x.get_top_level_signal()
    lo,hi=(0,type_nbits(t._dsl.Type)) if x is t else locate_in(x,t)
    return repr(t),lo,hi
  desc=[]
  for w,ms in nets:
    if w is None: continue
    wd=('const',int(w._dsl.const)) if isinstance(w,Const) else rng_of(w)
    desc.append((wd,[rng_of(m) for m in ms if not isinstance(m,Const)]))
  inputs=input_ports(top)
  top.apply(DefaultPassGroup()); top.sim_reset()
  rng=random.Random(seed)
  for t in range(ncycles):
    drive(top,rng,inputs); top.sim_eval_combinational()
    def get(d):
      if d[0]=='const': return d[1]
      return (val(top,d[0])>>d[1]) & ((1<<(d[2]-d[1]))-1)
    for wd,ms in desc:
      wv=get(wd)
      for m in ms:
        if get(m)!=wv: out.append(f"cycle {t}: net member {m} carries {get(m)} but its writer {wd} carries {wv}"); break
  return out
