"""C15 bounded stand-in: replace_component / replace_component_with_obj on enumerated hierarchies; the queryable metadata of the modified
design must equal (by names) that of the same design built from scratch with the replacement in place, nothing of the removed component
may remain reachable, and both must simulate identically."""
import sys, random

SRC='''
from pymtl3 import *
from pymtl3.dsl import CalleePort, CallerPort, method_port, update_once

class LeafA( Component ):
  def construct( s ):
    s.in_ = InPort( Bits8 ); s.out = OutPort( Bits8 ); s.w = Wire( Bits8 )
    @update
    def up_leaf():
      s.w @= s.in_ + 1
    @update
    def up_leaf_o():
      s.out @= s.w
    s.add_constraints( WR(s.w) < U(up_leaf_o) ) if False else None

class LeafB( Component ):
  def construct( s ):
    s.in_ = InPort( Bits8 ); s.out = OutPort( Bits8 ); s.r = Wire( Bits8 )
    @update_ff
    def ff_leaf(): s.r <<= s.in_
    s.out //= s.r

class LeafC( Component ):
  # child with an internal constant connection, an inner component and an explicit constraint
  def construct( s ):
    s.in_ = InPort( Bits8 ); s.out = OutPort( Bits8 ); s.k = Wire( Bits8 ); s.inner = LeafA()
    s.k //= 5
    s.inner.in_ //= s.in_
    @update
    def up_c(): s.out @= s.inner.out ^ s.k
    @update
    def up_c2(): pass
    s.add_constraints( U(up_c2) < U(up_c) )

class AdderCL( Component ):
  @method_port
  def add3( s, x ):
    return x + 3
  def construct( s ):
    pass

class LeafM( Component ):
  # child whose behaviour goes through an internal caller -> callee method connection
  def construct( s ):
    s.in_ = InPort( Bits8 ); s.out = OutPort( Bits8 )
    s.helper = AdderCL()
    s.add    = CallerPort()
    connect( s.add, s.helper.add3 )
    @update_once
    def up_call():
      s.out @= s.add( s.in_ )

class LeafS( Component ):
  # bit slices of the child's own signals materialised by connections inside the child
  def construct( s ):
    s.in_ = InPort( Bits8 ); s.out = OutPort( Bits8 ); s.w = Wire( Bits8 )
    s.w[0:4] //= s.in_[4:8]; s.w[4:8] //= s.in_[0:4]
    s.out //= s.w

class LeafT( Component ):
  # bit slices only inside update blocks
  def construct( s ):
    s.in_ = InPort( Bits8 ); s.out = OutPort( Bits8 )
    @update
    def up_lo(): s.out[0:4] @= s.in_[4:8]
    @update
    def up_hi(): s.out[4:8] @= s.in_[0:4] + 1

class Mid( Component ):
  def construct( s, Leaves ):
    n = len( Leaves )
    s.in_ = InPort( Bits8 ); s.out = OutPort( Bits8 )
    s.lanes = [ L() for L in Leaves ]
    s.lanes[0].in_ //= s.in_
    for i in range(1,n): s.lanes[i].in_ //= s.lanes[i-1].out
    @update
    def up_mid(): s.out @= s.lanes[n-1].out + 1

class Top( Component ):
  def construct( s, kind, Leaves ):
    s.in_ = InPort( Bits8 ); s.out = OutPort( Bits8 )
    if kind == 'attr':
      s.c = Leaves[0](); s.c.in_ //= s.in_; s.out //= s.c.out
    elif kind == 'attr-block':
      s.c = Leaves[0](); s.c.in_ //= s.in_
      @update
      def up_top(): s.out @= s.c.out + 2
    elif kind == 'attr-slices':
      # the parent drives the child nibble-wise through slices of the child's port and reads a slice of its output in a block
      s.c = Leaves[0](); s.c.in_[0:4] //= s.in_[0:4]; s.c.in_[4:8] //= s.in_[4:8]
      @update
      def up_top():
        s.out[0:4] @= s.c.out[4:8]
        s.out[4:8] @= s.c.out[0:4]
    elif kind == 'list':
      s.cs = [ L() for L in Leaves ]
      s.cs[0].in_ //= s.in_; s.cs[1].in_ //= s.cs[0].out; s.cs[2].in_ //= s.cs[1].out; s.out //= s.cs[2].out
    else:
      s.m = Mid( Leaves[:2] ); s.m.in_ //= s.in_; s.out //= s.m.out
'''
def _mod():
  import os, importlib.util
  d=os.path.join(os.path.dirname(os.path.dirname(os.path.abspath(__file__))),'out','zoo'); os.makedirs(d,exist_ok=True)
  p=os.path.join(d,'repl_designs.py')
  if not os.path.exists(p) or open(p).read()!=SRC:
    from zoo.designs import _atomic_write; _atomic_write(p,SRC)
  if 'repl_designs' in sys.modules: return sys.modules['repl_designs']
  spec=importlib.util.spec_from_file_location('repl_designs',p); m=importlib.util.module_from_spec(spec); sys.modules['repl_designs']=m; spec.loader.exec_module(m); return m

def metadata(top):
  from pymtl3.dsl.Connectable import Signal, Const
  from pymtl3.dsl import Component
  nm=lambda x: repr(x)
  d={}
  d['components']=sorted(nm(x) for x in top.get_all_components())
  d['signals']=sorted(nm(x) for x in top.get_all_object_filter(lambda x: isinstance(x,Signal)))
  d['nets']=sorted((nm(w),tuple(sorted(nm(x) for x in net))) for w,net in top.get_all_value_nets())
  adj=top.get_signal_adjacency_dict()
  d['adjacency']=sorted((nm(k),tuple(sorted(nm(x) for x in v))) for k,v in adj.items() if v)
  d['adjacency_keys']=sorted(nm(k) for k in adj)
  rd,wr,ca=top.get_all_upblk_metadata()
  bn=lambda b: (nm(top.get_update_block_host_component(b)),b.__name__)
  d['blocks']=sorted(bn(b) for b in top.get_all_update_blocks())
  d['update_ff']=sorted(bn(b) for b in top.get_all_update_ff())
  d['reads']=sorted((bn(b),tuple(sorted(nm(x) for x in v))) for b,v in rd.items())
  d['writes']=sorted((bn(b),tuple(sorted(nm(x) for x in v))) for b,v in wr.items())
  uu,rdu,wru,mc=top.get_all_explicit_constraints()
  d['levels']=sorted((nm(x),x.get_component_level()) for x in top.get_all_components())
  d['method_nets']=sorted((nm(w),tuple(sorted(nm(x) for x in net))) for w,net in top.get_all_method_nets())
  d['U_U']=sorted((bn(a),bn(b)) for a,b in uu)
  d['RD_U']=sorted((nm(k),tuple(sorted((s_,bn(b)) for s_,b in v))) for k,v in rdu.items() if v)
  d['WR_U']=sorted((nm(k),tuple(sorted((s_,bn(b)) for s_,b in v))) for k,v in wru.items() if v)
  return d

def cases():
  out=[]
  for kind in ('attr','attr-block','list','deep'):
    for a,b in (('LeafA','LeafB'),('LeafB','LeafA'),('LeafA','LeafC'),('LeafC','LeafA'),('LeafC','LeafB'),('LeafA','LeafA'),('LeafA','LeafM'),('LeafM','LeafA')):
      for how in ('class','obj','twice'):
        out.append(dict(kind=kind,old=a,new=b,how=how))
  # bit slices of the replaced / replacing component's signals: created by connections inside the child, by its update blocks, by the parent
  for kind in ('attr','list','deep','attr-slices'):
    for a,b in (('LeafS','LeafT'),('LeafT','LeafS'),('LeafA','LeafS'),('LeafS','LeafA'),('LeafT','LeafA'),('LeafA','LeafT'),('LeafS','LeafS')):
      for how in ('class','twice'):
        out.append(dict(kind=kind,old=a,new=b,how=how))
  return out

def trace(top,seed,n=6):
  from pymtl3 import DefaultPassGroup
  top.apply(DefaultPassGroup()); rng=random.Random(seed); tr=[]
  try: top.sim_reset()
  except (NameError,NotImplementedError): pass      # sim_reset refuses designs with method ports; the ticks below do not need it
  for t in range(n):
    top.in_ @= rng.getrandbits(8)
    try: top.sim_eval_combinational()
    except (NameError,NotImplementedError): pass      # only pure-RTL designs have a separate combinational evaluation
    tr.append(int(top.out)); top.sim_tick(); tr.append(int(top.out))
  return tr

def check_case(repo,c,seed):
  if repo not in sys.path: sys.path.insert(0,repo)
  m=_mod(); out=[]
  Old=getattr(m,c['old']); New=getattr(m,c['new'])
  def victim(top):
    return {'attr':lambda: top.c,'attr-block':lambda: top.c,'attr-slices':lambda: top.c,'list':lambda: top.cs[1],'deep':lambda: top.m.lanes[1]}[c['kind']]()
  pos={'attr':0,'attr-block':0,'attr-slices':0,'list':1,'deep':1}[c['kind']]
  top=m.Top(c['kind'],[Old,Old,Old]); top.elaborate()
  try:
    if c['how']=='class': top.replace_component(victim(top),New)
    elif c['how']=='obj': top.replace_component_with_obj(victim(top),New())
    else:
      top.replace_component(victim(top),New); top.replace_component(victim(top),Old); top.replace_component(victim(top),New)
  except Exception as e:
    return [f"replace_component raised {type(e).__name__}: {str(e)[:150]}"]
  leaves=[Old,Old,Old]; leaves[pos]=New
  fresh=m.Top(c['kind'],leaves)          # the same classes built from scratch with the replacement in place
  fresh.elaborate()
  a=metadata(top); b=metadata(fresh)
  for k in a:
    if k=='adjacency_keys': continue
    if a[k]!=b[k]:
      da=[x for x in a[k] if x not in b[k]][:3]; db=[x for x in b[k] if x not in a[k]][:3]
      out.append(f"metadata '{k}' differs from a from-scratch build: only after replacement {da}; only in the fresh build {db}")
  from pymtl3.dsl.Connectable import Signal
  for x in top.get_all_object_filter(lambda x: isinstance(x,Signal)):
    try: same = eval(repr(x),{'s':top}) is x
    except Exception: same=False
    if not same: out.append(f"the registered signal {x!r} is not the object found under its name in the design"); break
  for k,v in a.items():
    if '<deleted>' in repr(v): out.append(f"metadata '{k}' still refers to an object of the removed component: {[x for x in v if '<deleted>' in repr(x)][:2]}")
  if not out:
    try:
      ta=trace(top,seed); tb=trace(fresh,seed)
      if ta!=tb: out.append(f"the modified design and the from-scratch build simulate differently: {ta} vs {tb}")
    except Exception as e: out.append(f"simulation of the modified design raised {type(e).__name__}: {str(e)[:120]}")
  return out
