"""C02 bounded stand-in for explicit block / method ordering constraints (also between blocks that call blocking methods, which are
wrapped into greenlets): every evaluation executes every block exactly once in an order that honours every explicit constraint."""
import sys, random, itertools

def gen(kinds,cons,decl):
  """kinds: tuple of 'b' (blocking) / 'n' (non-blocking) for methods m0..m3; cons: 'M' (method chain) | 'U' (block chain); decl: declaration order of the blocks."""
  L=["from pymtl3 import *","","class Board( Component ):"]
  for i,k in enumerate(kinds):
    L+=[("  @blocking" if k=='b' else "  @non_blocking( lambda s: True )"),f"  def m{i}( s ): s.seen.append( {i} )"]
  L+=["  def construct( s ):","    s.seen = []"]
  if cons=='M': L+=["    s.add_constraints( "+", ".join(f"M( s.m{i} ) < M( s.m{i+1} )" for i in range(len(kinds)-1))+" )"]
  L+=["","class Top( Component ):","  def construct( s ):","    s.board = Board(); s.order = []"]
  for i in decl:
    L+=["    @update_once",f"    def up_{i}():",f"      s.order.append( {i} ); s.board.m{i}()"]
  if cons=='U': L+=["    s.add_constraints( "+", ".join(f"U( up_{i} ) < U( up_{i+1} )" for i in range(len(kinds)-1))+" )"]
  L+=["  def line_trace( s ): return ''"]
  return '\n'.join(L)+'\n'

def cases():
  out=[]
  for kinds in (('b','b','b','b'),('n','n','n','n'),('b','n','b','n'),('n','b','b','n')):
    for cons in ('M','U'):
      for decl in ((3,2,1,0),(0,1,2,3),(2,0,3,1)):
        out.append((f"G[{''.join(kinds)};{cons};{''.join(map(str,decl))}]",gen(kinds,cons,decl)))
  return out

def check(repo,name,body,seed):
  if repo not in sys.path: sys.path.insert(0,repo)
  import os, hashlib, importlib.util
  from pymtl3.passes.PassGroups import DefaultPassGroup, SimpleSimPass
  d=os.path.join(os.path.dirname(os.path.dirname(os.path.abspath(__file__))),'out','zoo'); os.makedirs(d,exist_ok=True)
  h=hashlib.sha256(body.encode()).hexdigest()[:16]; path=os.path.join(d,f"meth_{h}.py")
  if not os.path.exists(path): open(path,'w').write(body)
  mn=f"meth_{h}"
  if mn in sys.modules: mod=sys.modules[mn]
  else:
    spec=importlib.util.spec_from_file_location(mn,path); mod=importlib.util.module_from_spec(spec); sys.modules[mn]=mod; spec.loader.exec_module(mod)
  out=[]
  for pg,k in [('default',0)]+[('simple',i) for i in range(4)]:
    random.seed(seed*10+k)
    top=mod.Top(); top.elaborate()
    top.apply(DefaultPassGroup() if pg=='default' else SimpleSimPass()); top.sim_reset()
    for t in range(3):
      top.order.clear(); top.sim_tick()
      o=list(top.order)
      if sorted(o)!=[0,1,2,3]: out.append(f"{pg}#{k} tick {t}: blocks executed {o}: every block must run exactly once"); break
      if o!=[0,1,2,3]: out.append(f"{pg}#{k} tick {t}: execution order {['up_%d'%i for i in o]} violates the explicit constraints 0 < 1 < 2 < 3"); break
  return out
