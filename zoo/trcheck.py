"""C12 / C13 bounded stand-ins on the real translation passes.

 portmap (C12): every flattened leaf of a struct / array port carries exactly the bits of the corresponding slice of the packed port value
                (expected ranges derived from the real to_bits of the port type, which is under contract in C06).
 names   (C13): module names are legal identifiers and two component instances get the same module name only if they are the same class with
                the same construct arguments (defaults included); translation text is identical across PYTHONHASHSEED values; every module
                is defined once and every instantiated module is defined."""
import sys, os, re, subprocess, json, inspect, tempfile, shutil

DESIGNS_SRC='''
from pymtl3 import *
@bitstruct
class In_:
  x: Bits3
  y: [Bits2]*2
@bitstruct
class Other:
  z: Bits5
@bitstruct
class P:
  a: Bits4
  b: [[Bits2]*2]*2
  c: In_
  d: Other
@bitstruct
class Q:
  m: [[Bits3]*3]*2
  n: Bits1
class Scale( Component ):
  def construct( s, nbits=8, offset=1, gain=3 ):
    s.in_ = InPort( mk_bits(nbits) ); s.out = OutPort( mk_bits(nbits) )
    @update
    def up_scale(): s.out @= s.in_ * gain + offset
class Neg( Component ):
  def construct( s, k=-1 ):
    s.in_ = InPort( Bits8 ); s.out = OutPort( Bits8 )
    @update
    def up_neg(): s.out @= s.in_ + ( k & 255 )
class PortMapTop( Component ):
  def construct( s ):
    s.in_ = InPort( P ); s.out = OutPort( P ); s.q = InPort( Q ); s.qo = OutPort( Q )
    s.arr = [ [ InPort( Bits4 ) for _ in range(3) ] for _ in range(2) ]; s.o2 = OutPort( Bits4 )
    @update
    def up():
      s.out @= s.in_
      s.qo @= s.q
      s.o2 @= s.arr[1][2] ^ s.arr[0][1]
class NamesTop( Component ):
  def construct( s ):
    s.in_ = InPort( Bits8 ); s.outs = [ OutPort( Bits8 ) for _ in range(5) ]
    s.a = Scale( 8, 2 ); s.b = Scale( 8, 2, 8 ); s.c = Scale( 8 ); s.d = Scale( 8, 1, 3 ); s.e = Neg( -1 )
    for i, m in enumerate( [ s.a, s.b, s.c, s.d, s.e ] ):
      m.in_ //= s.in_; s.outs[i] //= m.out
class QIfc( Interface ):
  def construct( s ):
    s.q = [ OutPort( Bits4 ) for _ in range(2) ]; s.v = InPort( Bits1 ); s.g = [ [ InPort( Bits2 ) for _ in range(4) ] for _ in range(2) ]
class IfcArrTop( Component ):
  def construct( s ):
    s.in_ = InPort( Bits4 ); s.dst = [ QIfc() for _ in range(3) ]; s.sum = OutPort( Bits4 )
    @update
    def up():
      for i in range(3):
        for j in range(2):
          s.dst[i].q[j] @= s.in_ + i*2 + j
    @update
    def up2():
      s.sum @= s.dst[2].q[1] + zext( s.dst[1].v, 4 ) + zext( s.dst[0].g[1][3], 4 )
class ArrTop( Component ):
  def construct( s ):
    s.in_ = InPort( Bits8 ); s.outs = [ OutPort( Bits8 ) for _ in range(6) ]
    s.incs = [ Scale( 8, i+1 ) for i in range(4) ]; s.same = [ Scale( 8, 7 ) for _ in range(2) ]
    for i, m in enumerate( s.incs + s.same ):
      m.in_ //= s.in_; s.outs[i] //= m.out
@bitstruct
class TA:
  a: Bits3
@bitstruct
class TB:
  b: Bits5
@bitstruct
class TC:
  c: Bits7
@bitstruct
class TD:
  d: Bits2
def _mk_inner( T, n ):
  class InnerUser( Component ):
    def construct( s ):
      s.in_ = InPort( mk_bits(n) ); s.out = OutPort( mk_bits(n) ); s.w = Wire( T )
      @update
      def up_w(): s.w @= s.in_
      @update
      def up_o(): s.out @= s.w
  InnerUser.__name__ = InnerUser.__qualname__ = 'InnerUser_' + T.__name__
  return InnerUser
UA = _mk_inner( TA, 3 ); UB = _mk_inner( TB, 5 ); UC = _mk_inner( TC, 7 ); UD = _mk_inner( TD, 2 )
class TypedefTop( Component ):
  def construct( s ):
    s.i3 = InPort( Bits3 ); s.i5 = InPort( Bits5 ); s.i7 = InPort( Bits7 ); s.i2 = InPort( Bits2 )
    s.o3 = OutPort( Bits3 ); s.o5 = OutPort( Bits5 ); s.o7 = OutPort( Bits7 ); s.o2 = OutPort( Bits2 )
    s.ua = UA(); s.ub = UB(); s.uc = UC(); s.ud = UD()
    s.ua.in_ //= s.i3; s.ub.in_ //= s.i5; s.uc.in_ //= s.i7; s.ud.in_ //= s.i2
    s.o3 //= s.ua.out; s.o5 //= s.ub.out; s.o7 //= s.uc.out; s.o2 //= s.ud.out
class StructTypesTop( Component ):
  def construct( s ):
    s.in_ = InPort( P ); s.out = OutPort( P )
    s.w = Wire( P )
    @update
    def up_a(): s.w @= s.in_
    @update
    def up_b(): s.out @= s.w
'''

def _load():
  d=os.path.join(os.path.dirname(os.path.dirname(os.path.abspath(__file__))),'out','zoo'); os.makedirs(d,exist_ok=True)
  p=os.path.join(d,'tr_designs.py')
  if not os.path.exists(p) or open(p).read()!=DESIGNS_SRC:
    from zoo.designs import _atomic_write; _atomic_write(p,DESIGNS_SRC)
  import importlib.util
  if 'tr_designs' in sys.modules: return sys.modules['tr_designs']
  spec=importlib.util.spec_from_file_location('tr_designs',p); m=importlib.util.module_from_spec(spec); sys.modules['tr_designs']=m; spec.loader.exec_module(m); return m

def translate(top,backend,workdir):
  cwd=os.getcwd(); os.chdir(workdir)
  try:
    if backend=='yosys':
      from pymtl3.passes.backends.yosys import YosysTranslationPass as TP
    else:
      from pymtl3.passes.backends.verilog import VerilogTranslationPass as TP
    top.elaborate(); top.set_metadata(TP.enable,True); top.apply(TP())
    return open(top.get_metadata(TP.translated_filename)).read()
  finally: os.chdir(cwd)

# ------------------------------------------------------------------------------------------------ C12 flat port map
def leaf_ranges(T):
  """{flattened suffix: (msb, lsb)} computed from the real to_bits of bitstruct class T (one leaf set to all ones at a time)."""
  from pymtl3.datatypes import Bits
  out={}
  def leaves(obj,path):
    if isinstance(obj,list):
      for i,x in enumerate(obj): yield from leaves(x,path+[str(i)])
    elif isinstance(obj,Bits): yield path,obj
    else:
      for f in obj.__bitstruct_fields__: yield from leaves(getattr(obj,f),path+[f])
  probe=T()
  for path,leaf in list(leaves(probe,[])):
    o=T()
    for p2,l2 in leaves(o,[]):
      if p2==path: l2 @= (1<<l2.nbits)-1
    v=int(o.to_bits()); lsb=(v&-v).bit_length()-1; msb=v.bit_length()-1
    out['__'.join(path)]=(msb,lsb)
  return out

def check_portmap(repo):
  if repo not in sys.path: sys.path.insert(0,repo)
  m=_load(); out=[]
  d=tempfile.mkdtemp(prefix='tr',dir=os.path.join(os.path.dirname(os.path.dirname(os.path.abspath(__file__))),'out'))
  try:
    text=translate(m.PortMapTop(),'yosys',d)
    for port,T,direction in (('in_',m.P,'in'),('out',m.P,'out'),('q',m.Q,'in'),('qo',m.Q,'out')):
      exp=leaf_ranges(T)
      got={}
      for ln in text.splitlines():
        ln=ln.strip()
        a=re.match(r'assign (\w+)\[(\d+):(\d+)\] = (\w+);',ln) if direction=='in' else re.match(r'assign (\w+) = (\w+)\[(\d+):(\d+)\];',ln)
        if not a: continue
        if direction=='in': wire,msb,lsb,leaf=a.group(1),int(a.group(2)),int(a.group(3)),a.group(4)
        else: leaf,wire,msb,lsb=a.group(1),a.group(2),int(a.group(3)),int(a.group(4))
        if wire!=port: continue
        if not leaf.startswith(port+'__'): out.append(f"port {port}: unexpected leaf name {leaf}"); continue
        got[leaf[len(port)+2:]]=(msb,lsb)
      for k,r in exp.items():
        if k not in got: out.append(f"port {port}: flattened leaf {port}__{k} is not connected to a slice of the packed port")
        elif got[k]!=r: out.append(f"port {port}: flattened leaf {port}__{k} is mapped to bits [{got[k][0]}:{got[k][1]}] but the packed value holds it at [{r[0]}:{r[1]}]")
      for k in got:
        if k not in exp: out.append(f"port {port}: slice assignment for unknown leaf {k}")
    for i in range(2):
      for j in range(3):
        if not re.search(rf'assign arr\[{i}\]\[{j}\] = arr__{i}__{j};',text): out.append(f"array port element arr[{i}][{j}] is not connected to the flattened port arr__{i}__{j}")
    out+=check_flat_arrays(text,'PortMapTop')
    out+=check_flat_arrays(translate(m.IfcArrTop(),'yosys',d),'IfcArrTop')
  finally: shutil.rmtree(d,ignore_errors=True)
  return out

def check_flat_arrays(text,what):
  """every grouping wire `logic [..] NAME [0:a][0:b]..` of the Yosys text is connected element by element to the flattened ports whose name
  spells the same path (NAME's identifiers with the indices in between), every index inside the declared dimensions, every element once."""
  out=[]
  decl={}
  for a in re.finditer(r'^\s*logic\s*\[\d+:\d+\]\s+(\w+)((?:\s*\[0:\d+\])+)\s*;',text,re.M):
    decl[a.group(1)]=[int(x)+1 for x in re.findall(r'\[0:(\d+)\]',a.group(2))]
  seen={}
  for a in re.finditer(r'^\s*assign\s+(\w+)((?:\[\d+\])*)\s*=\s*(\w+)((?:\[\d+\])*)\s*;',text,re.M):
    l,li,r,ri=a.group(1),a.group(2),a.group(3),a.group(4)
    if li and not ri: wire,idx,flat=l,li,r
    elif ri and not li: wire,idx,flat=r,ri,l
    else: continue
    if wire not in decl: continue
    ix=[int(x) for x in re.findall(r'\[(\d+)\]',idx)]
    dims=decl[wire]
    if len(ix)!=len(dims) or any(i>=d for i,d in zip(ix,dims)):
      out.append(f"{what}: {a.group(0).strip()} indexes {wire} outside its declared dimensions {dims}"); continue
    parts=flat.split('__'); names=[p for p in parts if not p.isdigit()]; nums=[int(p) for p in parts if p.isdigit()]
    if '__'.join(names)!=wire or nums!=ix: out.append(f"{what}: flattened port {flat} is connected to {wire}{idx}, a different element than its name spells")
    seen.setdefault(wire,[]).append(tuple(ix))
  import itertools
  for w,dims in decl.items():
    if w not in seen: continue
    allix=set(itertools.product(*[range(d) for d in dims]))
    if set(seen[w])!=allix or len(seen[w])!=len(allix): out.append(f"{what}: elements of {w}{dims} connected to flattened ports: {sorted(seen[w])} (each element must be connected exactly once)")
  return out

def check_instances(repo):
  """C13: in the translated text every sub-component instance instantiates the module generated for *that* component (its own unique name)."""
  if repo not in sys.path: sys.path.insert(0,repo)
  m=_load(); out=[]
  from pymtl3.passes.rtlir import RTLIRType as rt
  from pymtl3.passes.backends.verilog.util.utility import get_component_unique_name
  d=tempfile.mkdtemp(prefix='tr',dir=os.path.join(os.path.dirname(os.path.dirname(os.path.abspath(__file__))),'out'))
  try:
    for cls in ('ArrTop','NamesTop'):
      for be in ('verilog','yosys'):
        top=getattr(m,cls)(); text=translate(top,be,d)
        insts=dict((i,mn) for mn,i in re.findall(r'^\s*(\w+)\s+(\w+)\s*\(\s*$',text,re.M) if mn!='module')
        for c in top.get_child_components():
          nm=get_component_unique_name(rt.RTLIRGetter(cache=False).get_component_ifc_rtlir(c) if hasattr(rt,'RTLIRGetter') else rt.get_component_ifc_rtlir(c))
          iname=repr(c)[2:].replace('[','__').replace(']','')
          if iname not in insts: out.append(f"{cls}:{be}: no instantiation named {iname} for component {c!r}"); continue
          if insts[iname]!=nm: out.append(f"{cls}:{be}: instance {iname} ({c!r}, arguments {c._dsl.args}) instantiates module {insts[iname]} but its own module is {nm}")
  finally: shutil.rmtree(d,ignore_errors=True)
  return out

# ------------------------------------------------------------------------------------------------ C13 names and determinism
IDENT=re.compile(r'^[A-Za-z_][A-Za-z0-9_$]*$')

def check_names(repo):
  if repo not in sys.path: sys.path.insert(0,repo)
  m=_load(); out=[]
  from pymtl3.passes.rtlir import RTLIRType as rt
  from pymtl3.passes.backends.verilog.util.utility import get_component_unique_name
  top=m.NamesTop(); top.elaborate()
  names={}
  for c in sorted(top.get_all_components(),key=repr):
    rtype=rt.RTLIRGetter(cache=False).get_component_ifc_rtlir(c) if hasattr(rt,'RTLIRGetter') else rt.get_component_ifc_rtlir(c)
    nm=get_component_unique_name(rtype)
    sig=inspect.signature(type(c).construct)
    ba=sig.bind(c,*c._dsl.args,**c._dsl.kwargs); ba.apply_defaults()
    ident=(type(c).__name__,tuple((k,repr(v)) for k,v in list(ba.arguments.items())[1:]))
    if not IDENT.match(nm): out.append(f"component {c!r} ({ident[0]}{dict(ident[1])}) gets the module name {nm!r}, which is not a legal identifier")
    if nm in names and names[nm][0]!=ident:
      out.append(f"components {names[nm][1]} {dict(names[nm][0][1])} and {c!r} {dict(ident[1])} differ but share the module name {nm}")
    names.setdefault(nm,(ident,repr(c)))
  return out

SUB='''
import sys, os, json
sys.path.insert(0,{repo!r}); sys.path.insert(0,{verif!r})
from zoo import trcheck
m=trcheck._load()
import tempfile, shutil
d=tempfile.mkdtemp(prefix='trs',dir={outdir!r})
try:
  res={{}}
  for cls in ('StructTypesTop','NamesTop','PortMapTop','TypedefTop','ArrTop'):
    for be in ('verilog','yosys'):
      try: res[cls+':'+be]=trcheck.translate(getattr(m,cls)(),be,d)
      except Exception as e: res[cls+':'+be]='EXC '+type(e).__name__+': '+str(e)[:200]
  print(json.dumps(res))
finally: shutil.rmtree(d,ignore_errors=True)
'''
def check_determinism(repo,seeds=(0,1,2,3,17)):
  verif=os.path.dirname(os.path.dirname(os.path.abspath(__file__))); outdir=os.path.join(verif,'out'); os.makedirs(outdir,exist_ok=True)
  _load()
  texts={}
  out=[]
  for hs in seeds:
    env=dict(os.environ); env['PYTHONHASHSEED']=str(hs)
    r=subprocess.run([sys.executable,'-c',SUB.format(repo=repo,verif=verif,outdir=outdir)],capture_output=True,text=True,env=env,timeout=600)
    if r.returncode!=0: out.append(f"translation subprocess failed (hash seed {hs}): {r.stderr[-200:]}"); continue
    texts[hs]=json.loads(r.stdout.strip().splitlines()[-1])
  if not texts: return out
  base=texts[seeds[0]]
  strip=lambda t: '\n'.join(l for l in t.splitlines() if not l.startswith('//') )
  for hs,t in texts.items():
    for k in t:
      if t[k].startswith('EXC'): out.append(f"{k}: translation raised {t[k][4:]}"); continue
      if strip(t[k])!=strip(base[k]): out.append(f"{k}: translated text differs between PYTHONHASHSEED={seeds[0]} and {hs}")
  for k,t in base.items():
    if t.startswith('EXC'): continue
    defs=re.findall(r'^module\s+(\w+)',t,re.M)
    for n in set(defs):
      if defs.count(n)!=1: out.append(f"{k}: module {n} is defined {defs.count(n)} times")
      if not IDENT.match(n): out.append(f"{k}: module name {n!r} is not a legal identifier")
    for inst in re.findall(r'^\s*(\w+)\s+\w+\s*\(\s*$',t,re.M):
      if inst not in defs and inst not in('module','always_comb','always_ff','begin','if','else','case'): out.append(f"{k}: instantiated module {inst} is not defined")
  return out[:12]
