"""runs zoo checks in a process pool; results are reported as bounded stand-ins (never counted as proved)."""
import sys, os, time, traceback, random
from multiprocessing import Pool

def kind_of(name):
  if name.startswith('B['): return 'true_loop' if ('true' in name or 'ring' in name) else 'false_loop'
  return 'acyclic'

def _job(a):
  check,fam,name,body,repo,seed=a
  if repo not in sys.path: sys.path.insert(0,repo)
  from zoo import designs, simcheck
  t0=time.time()
  try:
    Top,src=designs.load(name,body)
    k=kind_of(name)
    if check=='sim': v=simcheck.check_sim(name,Top,k,seed)
    elif check=='dag': v=simcheck.check_dag(name,Top)[0]
    elif check=='sched': v=simcheck.check_schedules(name,Top,k!='acyclic')
    elif check=='flip': v=simcheck.check_flip(name,Top)
    elif check=='fforder': v=simcheck.check_ff_orders(name,Top,name[2:-1],seed)
    else: raise ValueError(check)
    return dict(check=check,design=name,failed=v,error=None,time=time.time()-t0)
  except Exception as e:
    return dict(check=check,design=name,failed=[],error=f"{type(e).__name__}: {e}",trace=traceback.format_exc()[-1500:],time=time.time()-t0)
  finally:
    for f in ('/tmp/upblk-dag.gv','/tmp/upblk-dag.gv.pdf'):
      try: os.unlink(f)
      except OSError: pass

CHECK_DOC={'sim':"all pass groups / tie-break seeds agree on every signal after every evaluation; re-running any block changes nothing; cyclic designs settle or raise",
 'dag':"GenDAGPass orders each writer before each bit-overlapping reader and constraint_objs covers the communicated bits",
 'sched':"every scheduler places each block exactly once and respects all_constraints",
 'flip':"the generated double-buffer function flips exactly the signals written with <<=",
 'fforder':"register traces are independent of the order of update_ff blocks and equal the pre-edge reference"}

def run(checks,families,repo,seed,tier,procs=16):
  """checks: list of check names; families: list of family letters. returns results in pyvc result shape (one per check)."""
  from zoo import designs
  fam={'A':designs.family_A,'B':designs.family_B,'C':designs.family_C,'M':designs.family_M}
  jobs=[]
  for f in families:
    for name,body in fam[f]():
      for c in checks:
        if c in('flip','fforder') and f!='C' and c=='fforder': continue
        jobs.append((c,f,name,body,repo,seed))
  with Pool(min(procs,max(1,len(jobs)))) as p: res=p.map(_job,jobs,chunksize=2)
  out=[]
  srcs={name:body for f in families for name,body in fam[f]()}
  for c in checks:
    rs=[r for r in res if r['check']==c]
    if not rs: continue
    fails=[]; errs=[]
    for r in rs:
      if r['error']: errs.append(f"{r['design']}: {r['error']}")
      for msg in r['failed']:
        fails.append(dict(args={'design':r['design']},failed=[msg],custom=dict(kind='custom',module='zoo.replay',entry='replay_design',check=c,design=r['design'],body=srcs[r['design']],seed=seed)))
    out.append(dict(key=f"zoo::{c}[{'+'.join(families)}]",ok=not errs,error='; '.join(errs[:3]) if errs else None,obligations=[],kind='bounded-standin',
                    lines=None,ast_hash=None,info=None,time=sum(r['time'] for r in rs),is_standin=True,
                    standin=dict(evaluations=len(rs),failures=fails,bound=f"{CHECK_DOC[c]}; designs: families {families} of zoo/designs.py enumerated completely ({len(rs)} designs), 6 cycles of seeded random inputs",per_case={})))
  return out
