"""runs zoo checks in a process pool; results are reported as bounded stand-ins (never counted as proved)."""
import sys, os, time, traceback, random
from multiprocessing import Pool

def kind_of(name):
  if name.startswith('B[reject'): return 'reject'
  if name.startswith('B['): return 'true_loop' if ('true' in name or 'ring' in name) else 'false_loop'
  return 'acyclic'

def _no_graphviz():
  # dump_dag (debug picture of a cyclic graph) renders to a fixed file under /tmp and opens a viewer: in the checks it is
  # made to fail the way it does on a headless machine (DESIGN.md 3.1: opaque, may raise), without touching /tmp
  try:
    import graphviz
    def render(self,*a,**k): raise FileNotFoundError("viewer not available (rendering disabled inside /verif checks)")
    graphviz.Digraph.render=render
  except Exception: pass

class ZooTimeout(Exception):
  """the real code did not finish a zoo job within the wall-clock budget (a hang is a failure of every property the job serves)"""
JOB_BUDGET_S=int(os.environ.get('VERIF_ZOO_JOB_BUDGET','300'))
if 'VERIF_ZOO_HANGFLAG' not in os.environ:        # parent process of the pools: one flag file per check run (children inherit the name)
  _d=os.path.join(os.path.dirname(os.path.dirname(os.path.abspath(__file__))),'out'); os.makedirs(_d,exist_ok=True)
  os.environ['VERIF_ZOO_HANGFLAG']=os.path.join(_d,f"zoo_hang_{os.getpid()}.flag")
  try: os.unlink(os.environ['VERIF_ZOO_HANGFLAG'])
  except OSError: pass
  import atexit
  atexit.register(lambda p=os.environ['VERIF_ZOO_HANGFLAG'],me=os.getpid(): (os.getpid()==me and os.path.exists(p) and os.unlink(p)))
HANGFLAG=os.environ['VERIF_ZOO_HANGFLAG']
def _jobname(a):
  if isinstance(a,(tuple,list)):
    for x in a:
      if isinstance(x,str) and '[' in x and len(x)<120 and '\n' not in x: return x
  return str(a)[:60]
def budget(fn):
  import functools, signal
  @functools.wraps(fn)
  def w(a):
    try:
      if sum(1 for _ in open(HANGFLAG))>=3:
        return dict(check=fn.__name__,design=_jobname(a),failed=["not run: three earlier jobs of this check did not finish within the budget (the real code hangs)"],error=None,time=0.0)
    except OSError: pass
    def h(sig,frm):
      try: open(HANGFLAG,'a').write('x\n')
      except OSError: pass
      signal.alarm(3)          # if a per-design handler swallows the exception and the next design hangs again, fire again
      raise ZooTimeout(f"no result within {JOB_BUDGET_S} s")
    try: signal.signal(signal.SIGALRM,h); signal.alarm(JOB_BUDGET_S)
    except ValueError: return fn(a)          # not in the main thread of a worker: run without budget
    try: r=fn(a)
    except ZooTimeout as e: r=dict(check=fn.__name__,design=_jobname(a),failed=[],error=f"ZooTimeout: {e}",time=JOB_BUDGET_S)
    finally: signal.alarm(0)
    if isinstance(r,dict) and r.get('error') and 'ZooTimeout' in str(r['error']):
      r['failed']=list(r.get('failed') or [])+[f"the real code did not finish this job within {JOB_BUDGET_S} s (hang): {r['error']}"]; r['error']=None
    return r
  return w

def _job(a):
  check,fam,name,body,repo,seed=a
  if repo not in sys.path: sys.path.insert(0,repo)
  from zoo import designs, simcheck
  _no_graphviz()
  t0=time.time()
  try:
    Top,src=designs.load(name,body)
    k=kind_of(name)
    if k=='reject' and check=='dag': v=[]
    elif k=='reject': v=simcheck.check_sim(name,Top,k,seed)   # designs that every scheduler must refuse (the 'sched' and 'sim' checks coincide)
    elif check=='sim': v=simcheck.check_sim(name,Top,k,seed)
    elif check=='dag': v=simcheck.check_dag(name,Top)[0]
    elif check=='sched': v=simcheck.check_schedules(name,Top,k!='acyclic')
    elif check=='flip': v=simcheck.check_flip(name,Top)
    elif check=='fforder': v=simcheck.check_ff_orders(name,Top,name[2:-1],seed)
    elif check=='defect': v=simcheck.check_defect(name,Top,fam)
    elif check=='netvalues': v=simcheck.check_net_values(name,Top,seed)
    else: raise ValueError(check)
    return dict(check=check,design=name,failed=v,error=None,time=time.time()-t0)
  except ImportError as e:
    return dict(check=check,design=name,failed=[],error=f"{type(e).__name__}: {e}",trace=traceback.format_exc()[-1500:],time=time.time()-t0)
  except Exception as e:
    # every zoo design elaborates and simulates on the baseline: an exception here is the design being rejected / crashing
    return dict(check=check,design=name,failed=[f"the design could not be elaborated/simulated: {type(e).__name__}: {str(e)[:160]}"],error=None,time=time.time()-t0)
  finally:
    for f in ('/tmp/upblk-dag.gv','/tmp/upblk-dag.gv.pdf'):
      try: os.unlink(f)
      except OSError: pass

CHECK_DOC={'sim':"all pass groups / tie-break seeds agree on every signal after every evaluation; re-running any block changes nothing; cyclic designs settle or raise",
 'dag':"GenDAGPass orders each writer before each bit-overlapping reader and constraint_objs covers the communicated bits",
 'sched':"every scheduler places each block exactly once and respects all_constraints",
 'flip':"the generated double-buffer function flips exactly the signals written with <<=",
 'defect':"a design with a structural defect (two drivers of a bit, undriven net, connection loop, forbidden hierarchical access, wrong assignment operator) fails elaboration with the corresponding error for every order of its statements; a design without defect elaborates",
 'nets':"connect statements in any order and with either side first elaborate to the same nets = connected components, each with exactly one writer that is a member; in simulation every member carries the writer's value",
 'netvalues':"every member of a net carries the writer's value",
 'fforder':"register traces are independent of the order of update_ff blocks and equal the pre-edge reference"}

def _netjob(a):
  group,items,repo=a
  if repo not in sys.path: sys.path.insert(0,repo)
  from zoo import designs, simcheck
  t0=time.time()
  try:
    grp=[(n,designs.load(n,b)[0]) for n,b in items]
    return dict(check='nets',design=f"E[{group};*]",failed=simcheck.check_nets(grp),error=None,time=time.time()-t0,body='\n# ----\n'.join(b for _,b in items[:2]))
  except Exception as e:
    return dict(check='nets',design=f"E[{group};*]",failed=[],error=f"{type(e).__name__}: {e}",time=time.time()-t0,body='')

def run_special(check,repo,seed,tier,procs=16):
  """families with their own shape: D (defects; expected outcome per design) and E (connection permutations grouped)."""
  from zoo import designs
  if check=='defect':
    items=designs.family_D()
    jobs=[('defect',exp,name,body,repo,seed) for name,body,exp in items]
    with Pool(min(procs,len(jobs))) as p: res=p.map(_job,jobs,chunksize=2)
    srcs={n:b for n,b,_ in items}; exps={n:e for n,b,e in items}
    fails=[dict(args={'design':r['design']},failed=[m],custom=dict(kind='custom',module='zoo.replay',entry='replay_design',check='defect',design=r['design'],body=srcs.get(r['design'],''),expected=exps[r['design']],seed=seed)) for r in res for m in r['failed']]
    errs=[f"{r['design']}: {r['error']}" for r in res if r['error']]
    bound=f"{CHECK_DOC['defect']}; family D of zoo/designs.py ({len(items)} designs incl. every statement order of each defect)"
    return [dict(key="zoo::defect[D]",ok=not errs,error='; '.join(errs[:3]) if errs else None,obligations=[],kind='bounded-standin',lines=None,ast_hash=None,info=None,
                 time=sum(r['time'] for r in res),is_standin=True,standin=dict(evaluations=len(res),failures=fails,bound=bound,per_case={}))]
  items=designs.family_E(6 if tier=='quick' else 24)
  groups={}
  for n,b,g in items: groups.setdefault(g,[]).append((n,b))
  with Pool(min(procs,len(groups))) as p: res=p.map(_netjob,[(g,it,repo) for g,it in groups.items()])
  jobs=[('netvalues',None,n,b,repo,seed) for n,b,g in items]
  with Pool(min(procs,len(jobs))) as p: res2=p.map(_job,jobs,chunksize=4)
  srcs={n:b for n,b,_ in items}
  fails=[dict(args={'design':r['design']},failed=[m],custom=dict(kind='custom',module='zoo.replay',entry='replay_nets',group=r['design'][2:-3],seed=seed)) for r in res for m in r['failed']]
  fails+=[dict(args={'design':r['design']},failed=[m],custom=dict(kind='custom',module='zoo.replay',entry='replay_design',check='netvalues',design=r['design'],body=srcs.get(r['design'],''),seed=seed)) for r in res2 for m in r['failed']]
  errs=[f"{r['design']}: {r['error']}" for r in res+res2 if r['error']]
  bound=f"{CHECK_DOC['nets']}; family E of zoo/designs.py: {len(groups)} connection multisets x permutations x side flips = {len(items)} designs"
  return [dict(key="zoo::nets[E]",ok=not errs,error='; '.join(errs[:3]) if errs else None,obligations=[],kind='bounded-standin',lines=None,ast_hash=None,info=None,
               time=sum(r['time'] for r in res+res2),is_standin=True,standin=dict(evaluations=len(res)+len(res2),failures=fails,bound=bound,per_case={}))]

def run(checks,families,repo,seed,tier,procs=16):
  """checks: list of check names; families: list of family letters. returns results in pyvc result shape (one per check)."""
  from zoo import designs
  fam={'A':designs.family_A,'B':designs.family_B,'C':designs.family_C,'M':designs.family_M}
  jobs=[]
  for f in families:
    for name,body in fam[f]():
      for c in checks:
        if c in('flip','fforder') and f!='C' and c=='fforder': continue
        jobs.append((c,f,name,body,repo,seed))
  with Pool(min(procs,max(1,len(jobs)))) as p: res=p.map(_job,jobs,chunksize=2)
  out=[]
  srcs={name:body for f in families for name,body in fam[f]()}
  for c in checks:
    rs=[r for r in res if r['check']==c]
    if not rs: continue
    fails=[]; errs=[]
    for r in rs:
      if r['error']: errs.append(f"{r['design']}: {r['error']}")
      for msg in r['failed']:
        fails.append(dict(args={'design':r['design']},failed=[msg],custom=dict(kind='custom',module='zoo.replay',entry='replay_design',check=c,design=r['design'],body=srcs.get(r['design'],''),seed=seed)))
    out.append(dict(key=f"zoo::{c}[{'+'.join(families)}]",ok=not errs,error='; '.join(errs[:3]) if errs else None,obligations=[],kind='bounded-standin',
                    lines=None,ast_hash=None,info=None,time=sum(r['time'] for r in rs),is_standin=True,
                    standin=dict(evaluations=len(rs),failures=fails,bound=f"{CHECK_DOC[c]}; designs: families {families} of zoo/designs.py enumerated completely ({len(rs)} designs), 6 cycles of seeded random inputs",per_case={})))
  return out

def _memjob(a):
  repo,seed,cfg=a
  if repo not in sys.path: sys.path.insert(0,repo)
  from zoo import memcheck
  t0=time.time()
  return dict(cfg=cfg,seed=seed,failed=memcheck.run_config(repo,seed,cfg),time=time.time()-t0)

def run_mem(repo,seed,tier,procs=16):
  from zoo import memcheck
  seeds=[seed*7+1,seed*7+2] if tier=='quick' else [seed*7+k for k in range(1,9)]
  jobs=[(repo,sd,cfg) for cfg in memcheck.configs(tier) for sd in seeds]
  with Pool(min(procs,len(jobs))) as p: res=p.map(_memjob,jobs,chunksize=2)
  fails=[dict(args={'design':f"{r['cfg']} seed={r['seed']}"},failed=[m],custom=dict(kind='custom',module='zoo.replay',entry='replay_mem',cfg=r['cfg'],seed=r['seed'])) for r in res for m in r['failed'][:1]]
  bound=("per-port responses (type, opaque, len, data) in request order and the final memory image equal a sequential byte-array specification; "
         f"MagicMemoryCL and stream MagicMemoryRTL, 1-2 ports, latency 0/1/3, stall probability 0/0.4, source/sink timing incl. back-pressuring sinks: {len(memcheck.configs(tier))} configurations x {len(seeds)} seeded request streams (6 requests per port: reads, writes, all AMOs, lengths 1..4, overlapping addresses)")
  return [dict(key="zoo::memory",ok=True,error=None,obligations=[],kind='bounded-standin',lines=None,ast_hash=None,info=None,time=sum(r['time'] for r in res),is_standin=True,
               standin=dict(evaluations=len(res),failures=fails,bound=bound,per_case={}))]

def _vcdjob(a):
  repo,seed,name,body=a
  if repo not in sys.path: sys.path.insert(0,repo)
  from zoo import designs, vcdcheck
  _no_graphviz(); t0=time.time()
  try:
    Top,src=designs.load(name,body)
    v=vcdcheck.check_vcd(name,Top,seed,12 if 'wide' in name else 8)
  except Exception as e:
    v=[f"the design could not be simulated with waveform dumping: {type(e).__name__}: {str(e)[:160]}"]
  return dict(design=name,seed=seed,failed=v,time=time.time()-t0,body=body)

def run_vcd(repo,seed,tier,procs=16):
  from zoo import vcdcheck
  ds=vcdcheck.vcd_designs(); seeds=[seed+1,seed+2] if tier=='quick' else [seed+k for k in range(1,7)]
  jobs=[(repo,sd,n,b) for n,b in ds for sd in seeds]
  with Pool(min(procs,len(jobs))) as p: res=p.map(_vcdjob,jobs,chunksize=1)
  fails=[dict(args={'design':f"{r['design']} seed={r['seed']}"},failed=[m],custom=dict(kind='custom',module='zoo.replay',entry='replay_vcd',design=r['design'],body=r['body'],seed=r['seed'])) for r in res for m in r['failed'][:1]]
  sym=vcdcheck.check_symbols(repo)
  fails+=[dict(args={'design':'_gen_vcd_symbol'},failed=[m],custom=dict(kind='custom',module='zoo.replay',entry='replay_vcdsym')) for m in sym]
  bound=(f"the VCD file and the text-wave record, read back by an independent parser, give every signal of every component the value the simulator held at each cycle, and the clock toggles once per cycle: {len(ds)} designs "
         f"(struct signals, shared nets, never-changing signals, a 96-stage delay line = more than 94 nets, a 64-bit signal stepping through values with equal hashes) x {len(seeds)} seeded input sequences; "
         "the VCD symbol generator (extracted from the real source) yields 100000 pairwise distinct printable symbols")
  return [dict(key="zoo::vcd",ok=True,error=None,obligations=[],kind='bounded-standin',lines=None,ast_hash=None,info=None,time=sum(r['time'] for r in res),is_standin=True,
               standin=dict(evaluations=len(res)+1,failures=fails,bound=bound,per_case={}))]

def _tcjob(a):
  repo,name,body=a
  if repo not in sys.path: sys.path.insert(0,repo)
  from zoo import tccheck
  t0=time.time()
  try: v,acc=tccheck.check_block(name,body,repo)
  except Exception as e: v=[f"the probe could not be checked: {type(e).__name__}: {str(e)[:160]}"]; acc=False
  return dict(design=name,failed=v,accepted=acc,time=time.time()-t0,body=body)

def run_tc(repo,seed,tier,procs=16):
  from zoo import tccheck
  bl=tccheck.blocks()
  with Pool(min(procs,len(bl))) as p: res=p.map(_tcjob,[(repo,n,b) for n,b in bl],chunksize=8)
  fails=[dict(args={'design':r['design']},failed=[m],custom=dict(kind='custom',module='zoo.replay',entry='replay_tc',design=r['design'],body=r['body'])) for r in res for m in r['failed'][:1]]
  bound=(f"{len(bl)} update blocks (assignment, + & == <, conditional expressions with explicit/literal branches also nested in an addition, ascending and descending constant loops, "
         f"temporaries; operands Bits4 / Bits8 signals, a 4-bit slice and literals 0..256): accepted by the RTLIR type checker => simulation over a 24-point input grid raises no width / implicit-truncation error; "
         f"a runtime width mismatch between explicitly sized operands => rejected ({sum(r['accepted'] for r in res)} accepted)")
  return [dict(key="zoo::typecheck",ok=True,error=None,obligations=[],kind='bounded-standin',lines=None,ast_hash=None,info=None,time=sum(r['time'] for r in res),is_standin=True,
               standin=dict(evaluations=len(res),failures=fails,bound=bound,per_case={}))]

def run_tr(which,repo,seed,tier):
  from zoo import trcheck
  t0=time.time(); parts=[]
  if which=='C12':
    parts=[('portmap',trcheck.check_portmap)]
    bound="flat port map of YosysTranslationPass on a design with two struct-typed input and output ports (nested struct, 2-D lists of Bits, list inside a nested struct) and a 2x3 port array: every flattened leaf is connected to exactly the bit range that the real to_bits gives it (one leaf set to all ones at a time); array elements to their flattened ports; for every grouping wire of the text (struct/array ports, a 3-element interface array with 1-D and 2-D port arrays inside) every element is connected exactly once, inside the declared dimensions, to the flattened port whose name spells the same path"
  else:
    parts=[('names',trcheck.check_names),('instances',trcheck.check_instances),('determinism',trcheck.check_determinism)]
    bound="module names of 5 instances of parametrised components (defaults overridden partially, a negative parameter) are legal identifiers and coincide only for equal class and construct arguments; in the SystemVerilog and Yosys text every sub-component instance (incl. a list of same-class components with different parameters) instantiates the module of that very component; SystemVerilog and Yosys translation of 5 designs (two nested struct types in one struct, parametrised children, struct/array ports, four siblings that each use a struct type internally only, component lists) in fresh processes with PYTHONHASHSEED 0,1,2,3,17 is byte-identical up to comment lines; every module defined once; every instantiated module defined"
  fails=[]; n=0
  for nm,f in parts:
    try: r=f(repo)
    except Exception as e: r=[f"{nm} check could not run: {type(e).__name__}: {str(e)[:160]}"]
    n+=1
    fails+=[dict(args={'design':nm},failed=[m],custom=dict(kind='custom',module='zoo.replay',entry='replay_tr',which=nm)) for m in r[:6]]
  return [dict(key=f"zoo::translation[{which}]",ok=True,error=None,obligations=[],kind='bounded-standin',lines=None,ast_hash=None,info=None,time=time.time()-t0,is_standin=True,
               standin=dict(evaluations=n,failures=fails,bound=bound,per_case={}))]

def _repljob(a):
  repo,seed,c=a
  if repo not in sys.path: sys.path.insert(0,repo)
  from zoo import replcheck
  t0=time.time()
  try: v=replcheck.check_case(repo,c,seed)
  except Exception as e: v=[f"the replacement scenario could not be run: {type(e).__name__}: {str(e)[:160]}"]
  return dict(case=c,failed=v,time=time.time()-t0)

def run_repl(repo,seed,tier,procs=16):
  from zoo import replcheck
  cs=replcheck.cases()
  with Pool(min(procs,len(cs))) as p: res=p.map(_repljob,[(repo,seed,c) for c in cs],chunksize=2)
  fails=[dict(args={'design':str(r['case'])},failed=[m],custom=dict(kind='custom',module='zoo.replay',entry='replay_repl',case=r['case'],seed=seed)) for r in res for m in r['failed'][:1]]
  bound=(f"{len(cs)} replacement scenarios (child as attribute / attribute read by a parent block / list element / list element two levels down; old and new child drawn from a combinational leaf, "
         "a registered leaf and a leaf with an inner component, an internal constant connection and an explicit constraint; replace_component, replace_component_with_obj, and three replacements in a row): "
         "component/signal name sets, nets with writers, adjacency, update blocks with read/write sets, update_ff, explicit constraints equal those of the same classes built from scratch; no '<deleted>' object remains; identical simulation traces")
  return [dict(key="zoo::replace_component",ok=True,error=None,obligations=[],kind='bounded-standin',lines=None,ast_hash=None,info=None,time=sum(r['time'] for r in res),is_standin=True,
               standin=dict(evaluations=len(res),failures=fails,bound=bound,per_case={}))]

def _clqjob(a):
  repo,seed,c=a
  if repo not in sys.path: sys.path.insert(0,repo)
  from zoo import clqcheck
  t0=time.time()
  try: v=clqcheck.run_case(repo,c['kind'],c['n'],c['order'],seed)
  except Exception as e: v=[f"the queue harness could not run: {type(e).__name__}: {str(e)[:160]}"]
  return dict(case=c,seed=seed,failed=v,time=time.time()-t0)

def run_clq(repo,seed,tier,procs=16):
  from zoo import clqcheck
  cs=clqcheck.cases(); seeds=[seed+1,seed+2,seed+3] if tier=='quick' else [seed+k for k in range(1,13)]
  with Pool(min(procs,len(cs))) as p: res=p.map(_clqjob,[(repo,sd,c) for c in cs for sd in seeds],chunksize=2)
  fails=[dict(args={'design':f"{r['case']} seed={r['seed']}"},failed=[m],custom=dict(kind='custom',module='zoo.replay',entry='replay_clq',case=r['case'],seed=r['seed'])) for r in res for m in r['failed'][:1]]
  bound=(f"cycle-level queues NormalQueueCL / PipeQueueCL / BypassQueueCL, capacity 1..3, every legal order of the enqueueing and the dequeueing block (explicit either way, or left to the scheduler), "
         f"{len(seeds)} seeded offer sequences of 40 cycles: ready answers equal the table of the statement for the queue kind, dequeued messages are the accepted ones in order, occupancy never exceeds capacity")
  return [dict(key="zoo::cl_queues",ok=True,error=None,obligations=[],kind='bounded-standin',lines=None,ast_hash=None,info=None,time=sum(r['time'] for r in res),is_standin=True,
               standin=dict(evaluations=len(res),failures=fails,bound=bound,per_case={}))]

def _methjob(a):
  repo,seed,name,body=a
  if repo not in sys.path: sys.path.insert(0,repo)
  from zoo import methcheck
  _no_graphviz(); t0=time.time()
  try: v=methcheck.check(repo,name,body,seed)
  except Exception as e: v=[f"the design could not be elaborated/simulated: {type(e).__name__}: {str(e)[:160]}"]
  return dict(design=name,body=body,failed=v,time=time.time()-t0)

def run_meth(repo,seed,tier,procs=16):
  from zoo import methcheck
  cs=methcheck.cases()
  with Pool(min(procs,len(cs))) as p: res=p.map(_methjob,[(repo,seed,n,b) for n,b in cs],chunksize=2)
  fails=[dict(args={'design':r['design']},failed=[m],custom=dict(kind='custom',module='zoo.replay',entry='replay_meth',design=r['design'],body=r['body'],seed=seed)) for r in res for m in r['failed'][:1]]
  bound=(f"{len(cs)} designs of four update_once blocks each calling one method of a shared component (all blocking = greenlet-wrapped, all non-blocking, mixed), ordered only by a chain of method constraints or only by a chain of explicit block constraints, in three declaration orders; default and simple schedulers (4 tie-break seeds), three ticks: every block runs exactly once per tick, in the constrained order")
  return [dict(key="zoo::method_constraints",ok=True,error=None,obligations=[],kind='bounded-standin',lines=None,ast_hash=None,info=None,time=sum(r['time'] for r in res),is_standin=True,
               standin=dict(evaluations=len(res),failures=fails,bound=bound,per_case={}))]

def _regjob(a):
  repo,seed,name,body,chain=a
  if repo not in sys.path: sys.path.insert(0,repo)
  from zoo import designs, regfam, simcheck
  _no_graphviz(); t0=time.time()
  try:
    Top,src=designs.load(name,body)
    v=regfam.check_ref(name,Top,chain,seed)+simcheck.check_flip(name,Top)
    return dict(check='regs',design=name,failed=v,error=None,time=time.time()-t0)
  except Exception as e:
    return dict(check='regs',design=name,failed=[f"the design could not be elaborated/simulated: {type(e).__name__}: {str(e)[:160]}"],error=None,time=time.time()-t0)

def run_reg(repo,seed,tier,procs=16):
  from zoo import regfam
  items=regfam.family_R()
  with Pool(min(procs,len(items))) as p: res=p.map(_regjob,[(repo,seed,n,b,c) for n,b,c in items],chunksize=2)
  srcs={n:(b,c) for n,b,c in items}
  fails=[dict(args={'design':r['design']},failed=[m],custom=dict(kind='custom',module='zoo.replay',entry='replay_reg',design=r['design'],body=srcs[r['design']][0] if r['design'] in srcs else '',
              chain=srcs[r['design']][1] if r['design'] in srcs else [],seed=seed)) for r in res for m in r['failed'][:2]]
  bound=("register values after sim_reset() and after every sim_tick(), and the output after every sim_eval_combinational(), equal a pass-independent reference recurrence "
         "(pre-edge values, hold when not assigned) under every pass group (default, simple x4 seeds, unrolled, heuristic-topological, Mamba2020), and the generated double-buffer function flips "
         f"exactly the registers; family R of zoo/regfam.py: {len(items)} register hierarchies (flat with 1..24 branchy blocks, every two-level shape with 0..3 own registers and children with 0..3 registers "
         "as attributes or a list, three-level shapes), 8 cycles of seeded inputs")
  return [dict(key="zoo::register_hierarchies[R]",ok=True,error=None,obligations=[],kind='bounded-standin',lines=None,ast_hash=None,info=None,time=sum(r['time'] for r in res),is_standin=True,
               standin=dict(evaluations=len(res),failures=fails,bound=bound,per_case={}))]

# every job function runs under the wall-clock budget
_regjob=budget(_regjob)
_job=budget(_job)
_netjob=budget(_netjob)
_memjob=budget(_memjob)
_vcdjob=budget(_vcdjob)
_tcjob=budget(_tcjob)
_repljob=budget(_repljob)
_clqjob=budget(_clqjob)
_methjob=budget(_methjob)
