"""C02: GenDAGPass._process_value_constraints (the function that turns the read/write sets of update blocks and net blocks into ordering
constraints) under contract.

Signal structure is abstract, as for _check_upblk_writes (contracts/upblk.py): is_signal / get_parent_object / get_sibling_slices /
slice_overlap are pure uninterpreted functions, anc(x,k) the k-th parent, g_j the ghost position in the parent chain.  The postcondition is
the writer-before-reader clause of C02 in the code's own notion of 'the same variable' (a signal, its signal ancestors, overlapping sibling
slices); that this notion is bit overlap is the subject of Connectable._overlap's contract and of the bounded 'dag' check on real designs."""
import z3
from pyvc.contracts import Contract, Case, Loop
from pyvc.symexec import IntT, SpecType, mk_value
from pyvc.values import I, Tup
from pyvc.symcoll import ObjK, PairOf, SetOf, DictOf, CompT
from . import upblk          # declares the pure structure methods and anc()
from .upblk import ghost_init, h_start, h_up, CHAIN

F='pymtl3/passes/sim/GenDAGPass.py'
Blk=ObjK('Blk'); Sig=ObjK('Sig')

class TopT(SpecType):
  """the top component as this function sees it; the accessor methods return the design's own collections (faithful aliasing)."""
  tag='Component'
  def make(s,name,st,fresh):
    RW=DictOf(Blk,SetOf(Sig)); CU=DictOf(Sig,SetOf(PairOf(IntT(),Blk)))
    r=CompT('Component',{'_dsl.all_upblk_reads':RW,'_dsl.all_upblk_writes':RW,'_dsl.all_upblk_calls':RW,'_dsl.all_U_U_constraints':SetOf(PairOf(Blk,Blk)),
        '_dsl.all_RD_U_constraints':CU,'_dsl.all_WR_U_constraints':CU,'_dsl.all_M_constraints':SetOf(ObjK('M')),'get_all_update_ff()':SetOf(Blk),
        '_dag.genblk_reads':RW,'_dag.genblk_writes':RW,'_dag.constraint_objs':DictOf(PairOf(Blk,Blk),SetOf(Sig)),'_dag.all_constraints':SetOf(PairOf(Blk,Blk))}).make(name,st,fresh)
    d=st.heap[(r.id,'_dsl')]; g=lambda f: st.heap[(d.id,f)]
    st.heap[(r.id,'get_all_upblk_metadata()')]=Tup([g('all_upblk_reads'),g('all_upblk_writes'),g('all_upblk_calls')])
    st.heap[(r.id,'get_all_explicit_constraints()')]=Tup([g('all_U_U_constraints'),g('all_RD_U_constraints'),g('all_WR_U_constraints'),g('all_M_constraints')])
    return r

RD=lambda b,r: f"({r} in at(top._dsl.all_upblk_reads, {b}) or {r} in at(top._dag.genblk_reads, {b}))"
WR=lambda b,w: f"({w} in at(top._dsl.all_upblk_writes, {b}) or {w} in at(top._dag.genblk_writes, {b}))"
FFX="top.get_all_update_ff()"
AC="top._dag.all_constraints"
ORD=lambda a,b: f"(({a}, {b}) in {AC} or ({b}, {a}) in {AC})"

MONO="forall(p, implies(p in pre(impl_constraints), p in impl_constraints)) and forall(p, o, implies(o in pre(at(constraint_objs, p)), o in at(constraint_objs, p)))"
KEEP=["forall(k, at(read_upblks, k) == pre(at(read_upblks, k)))","forall(k, at(write_upblks, k) == pre(at(write_upblks, k)))"]
def build(local,inner):
  return {f'for blk, {inner} in data.items()':Loop(invariant=[f"forall(k, b, (b in at({local}, k)) == (b in pre(at({local}, k)) or (b in seen and k in at(data, b))))"], modifies=[local]),
          f'for {"rd" if inner=="reads" else "wr"} in {inner}':Loop(invariant=[f"forall(k, b, (b in at({local}, k)) == (b in pre(at({local}, k)) or (b == blk and k in seen)))"], modifies=[local])}
INW="forall(y, implies(y in elems(writers), y in dom(write_upblks)))"
INR="forall(y, implies(y in elems(readers), y in dom(read_upblks)))"

# ---- native side: mock top component over the mock signal trees of contracts/upblk.py
def _build(spec):
  import types
  from .upblk import _MComp, _MSig
  topc=_MComp(); sigs=[]
  for name,pi,lo,hi in spec['signals']:
    par=topc if pi<0 else sigs[pi]; x=_MSig(name,par,None if lo is None else (lo,hi)); sigs.append(x)
    if isinstance(par,_MSig): par.kids.append(x)
  blks={}
  def B(n):
    if n not in blks:
      def f(): pass
      f.__name__=n; blks[n]=f
    return blks[n]
  mk=lambda d: {B(b):set(sigs[i] for i in ix) for b,ix in d.items()}
  cu=lambda d: {sigs[int(i)]:set((sg,B(b)) for sg,b in v) for i,v in d.items()}
  dsl=types.SimpleNamespace(all_upblk_reads=mk(spec['reads']),all_upblk_writes=mk(spec['writes']),all_upblk_calls={},all_U_U_constraints=set((B(a),B(b)) for a,b in spec['uu']),
                            all_RD_U_constraints=cu(spec['rdu']),all_WR_U_constraints=cu(spec['wru']),all_M_constraints=set())
  dag=types.SimpleNamespace(genblk_reads=mk(spec['gen_reads']),genblk_writes=mk(spec['gen_writes']),constraint_objs=None,all_constraints=None)
  ff=set(B(b) for b in spec['ff'])
  top=types.SimpleNamespace(_dsl=dsl,_dag=dag,__spec__=spec)
  top.get_all_update_ff=lambda: ff
  top.get_all_upblk_metadata=lambda: (dsl.all_upblk_reads,dsl.all_upblk_writes,dsl.all_upblk_calls)
  top.get_all_explicit_constraints=lambda: (dsl.all_U_U_constraints,dsl.all_RD_U_constraints,dsl.all_WR_U_constraints,dsl.all_M_constraints)
  return {'self':None,'top':top}
def _sample(rng,n,variant,repo,reg):
  sigs=[]
  for i in range(rng.choice([1,2])):
    sigs.append([f"s.w{i}",-1,None,None]); base=len(sigs)-1
    if rng.random()<0.6:
      sigs.append([f"s.w{i}.f",base,None,None])
      if rng.random()<0.5: sigs.append([f"s.w{i}.f.g",len(sigs)-1,None,None])
    if rng.random()<0.6:
      for _ in range(rng.choice([1,2])):
        lo=rng.randrange(0,6); hi=rng.randrange(lo+1,8); sigs.append([f"s.w{i}[{lo}:{hi}]",base,lo,hi])
  names=[f"up{b}" for b in range(rng.choice([2,3]))]; gen=["net0"] if rng.random()<0.5 else []
  pick=lambda: sorted(set(rng.randrange(len(sigs)) for _ in range(rng.choice([0,1,2]))))
  spec=dict(signals=sigs,reads={b:pick() for b in names},writes={b:pick() for b in names},gen_reads={b:pick() for b in gen},gen_writes={b:pick() for b in gen},
            ff=[b for b in names if rng.random()<0.25],uu=[],rdu={},wru={})
  if rng.random()<0.4 and len(names)>=2:
    a,b=rng.sample(names,2); spec['uu'].append([a,b])
  if rng.random()<0.3: spec['rdu'][str(rng.randrange(len(sigs)))]=[[rng.choice([1,-1]),rng.choice(names)]]
  if rng.random()<0.3: spec['wru'][str(rng.randrange(len(sigs)))]=[[rng.choice([1,-1]),rng.choice(names)]]
  return _build(spec)

def contracts():
  loops={}
  loops.update(build('read_upblks','reads')); loops.update(build('write_upblks','writes'))
  # explicit constraints: only the frame matters for the writer-before-reader clause (they add to U_U, which the final step copies)
  for h in ('in constraints.items()','in constrained_blks','in equal_blks[obj]'):
    loops[h]=Loop(invariant=KEEP, modifies=['U_U','constraint_objs','read_upblks','write_upblks'])
  # ---- implicit, from the reader's side
  loops['in read_upblks.items()']=Loop(invariant=[MONO,
      f"forall(r, a, b, implies(r in seen and b in at(read_upblks, r), forall_int(i, implies(i >= 0 and {CHAIN('r','i')} and a in at(write_upblks, anc(r, i)) and not (a in update_ff) and a != b, (a, b) in impl_constraints and r in at(constraint_objs, (a, b))))))",
      "forall(r, w, a, b, implies(r in seen and is_signal(r) and w in get_sibling_slices(r) and slice_overlap(w, r) and b in at(read_upblks, r) and a in at(write_upblks, w) and not (a in update_ff) and a != b, (a, b) in impl_constraints and r in at(constraint_objs, (a, b))))"],
      modifies=['impl_constraints','constraint_objs'])
  loops['while x.is_signal()#1']=Loop(invariant=["g_j >= 0 and x == anc(obj, g_j)", INW,
      "forall_int(i, implies(0 <= i and i < g_j, is_signal(anc(obj, i)) and implies(anc(obj, i) in dom(write_upblks), anc(obj, i) in elems(writers))))"], modifies=['writers'], ghost=['g_j'])
  loops['in obj.get_sibling_slices()']=Loop(invariant=[INW,"forall(y, implies(y in pre(elems(writers)), y in elems(writers)))",
      "forall(y, implies(y in seen and slice_overlap(y, obj) and y in dom(write_upblks), y in elems(writers)))"], modifies=['writers'])
  loops['for writer in writers']=Loop(invariant=[MONO,
      "forall(y, a, b, implies(y in seen and a in at(write_upblks, y) and not (a in update_ff) and b in at(read_upblks, obj) and a != b, (a, b) in impl_constraints and obj in at(constraint_objs, (a, b))))"], modifies=['impl_constraints','constraint_objs'])
  loops['for wr_blk in write_upblks[writer]']=Loop(invariant=[MONO,
      "forall(a, b, implies(a in seen and not (a in update_ff) and b in at(read_upblks, obj) and a != b, (a, b) in impl_constraints and obj in at(constraint_objs, (a, b))))"], modifies=['impl_constraints','constraint_objs'])
  loops['for rd_blk in rd_blks']=Loop(invariant=[MONO,"forall(b, implies(b in seen and wr_blk != b, (wr_blk, b) in impl_constraints and obj in at(constraint_objs, (wr_blk, b))))"], modifies=['impl_constraints','constraint_objs'])
  # ---- implicit, from the writer's side
  loops['in write_upblks.items()']=Loop(invariant=[MONO,
      f"forall(w, a, b, implies(w in seen and a in at(write_upblks, w) and not (a in update_ff), forall_int(i, implies(i >= 0 and {CHAIN('w','i')} and b in at(read_upblks, anc(w, i)) and a != b, (a, b) in impl_constraints and w in at(constraint_objs, (a, b))))))"],
      modifies=['impl_constraints','constraint_objs'])
  loops['while x.is_signal()#2']=Loop(invariant=["g_j >= 0 and x == anc(obj, g_j)", INR,
      "forall_int(i, implies(0 <= i and i < g_j, is_signal(anc(obj, i)) and implies(anc(obj, i) in dom(read_upblks), anc(obj, i) in elems(readers))))"], modifies=['readers'], ghost=['g_j'])
  loops['for wr_blk in wr_blks']=Loop(invariant=[MONO,
      "forall(a, y, b, implies(a in seen and not (a in update_ff) and y in elems(readers) and b in at(read_upblks, y) and a != b, (a, b) in impl_constraints and obj in at(constraint_objs, (a, b))))"], modifies=['impl_constraints','constraint_objs'])
  loops['for reader in readers']=Loop(invariant=[MONO,"forall(y, b, implies(y in seen and b in at(read_upblks, y) and wr_blk != b, (wr_blk, b) in impl_constraints and obj in at(constraint_objs, (wr_blk, b))))"], modifies=['impl_constraints','constraint_objs'])
  loops['for rd_blk in read_upblks[reader]']=Loop(invariant=[MONO,"forall(b, implies(b in seen and wr_blk != b, (wr_blk, b) in impl_constraints and obj in at(constraint_objs, (wr_blk, b))))"], modifies=['impl_constraints','constraint_objs'])
  # ---- final: explicit constraints plus every implicit one that no explicit constraint inverts
  loops['in impl_constraints']=Loop(invariant=[f"forall(p, implies(p in U_U, p in {AC}))", f"forall(a, b, implies((a, b) in seen and not ((b, a) in U_U), (a, b) in {AC}))"], modifies=[AC])
  ens=(f"forall(r, a, b, implies({RD('b','r')} and not (a in {FFX}) and a != b, forall_int(i, implies(i >= 0 and {CHAIN('r','i')} and {WR('a','anc(r, i)')}, {ORD('a','b')})))) and "
       f"forall(r, w, a, b, implies(is_signal(r) and w in get_sibling_slices(r) and slice_overlap(w, r) and {RD('b','r')} and {WR('a','w')} and not (a in {FFX}) and a != b, {ORD('a','b')})) and "
       f"forall(w, a, b, implies({WR('a','w')} and not (a in {FFX}) and a != b, forall_int(i, implies(i >= 0 and {CHAIN('w','i')} and {RD('b','anc(w, i)')}, {ORD('a','b')})))) and "
       f"forall(p, implies(p in top._dsl.all_U_U_constraints, p in {AC})) and "
       # the signal that made the pair an (implicit) constraint is recorded for it: the read signal (reader-side rules), the written signal (writer-side rule)
       f"forall(r, a, b, implies({RD('b','r')} and not (a in {FFX}) and a != b, forall_int(i, implies(i >= 0 and {CHAIN('r','i')} and {WR('a','anc(r, i)')}, r in at(top._dag.constraint_objs, (a, b)))))) and "
       f"forall(r, w, a, b, implies(is_signal(r) and w in get_sibling_slices(r) and slice_overlap(w, r) and {RD('b','r')} and {WR('a','w')} and not (a in {FFX}) and a != b, r in at(top._dag.constraint_objs, (a, b)))) and "
       f"forall(w, a, b, implies({WR('a','w')} and not (a in {FFX}) and a != b, forall_int(i, implies(i >= 0 and {CHAIN('w','i')} and {RD('b','anc(w, i)')}, w in at(top._dag.constraint_objs, (a, b))))))")
  return [Contract(f'{F}::GenDAGPass._process_value_constraints', view={'self':ObjK('Pass'),'top':TopT()},
    cases=[Case('any', requires='True', ensures=ens,
      source="C02: 'a block that writes any bit of a signal runs before every block that reads an overlapping bit of that signal - through whole signals, struct fields, nested fields and "
             "overlapping slices - unless an explicit constraint inverts the pair; explicit block ... ordering constraints are honoured too': for every combinational writer block a and other block b "
             "with a write and a read on the same signal, on a signal and one of its signal ancestors (either way round), or on overlapping sibling slices, all_constraints orders the pair - "
             "a before b, or b before a exactly when an explicit constraint says so; every explicit constraint is in all_constraints")],
    loops=loops, ghost_init=ghost_init, ghost_hooks={'x = obj':h_start,'x = x.get_parent_object()':h_up},
    abstract_lists={'writers':'bag','readers':'bag'},
    pure_methods={'is_signal':1,'get_parent_object':1,'get_sibling_slices':1,'slice_overlap':2},
    modifies=['top._dsl.all_U_U_constraints','top._dag.constraint_objs','top._dag.all_constraints'], returns=None, property_ids=('C02','C11'), sample=_sample, json_args=(lambda a: a['top'].__spec__, _build),
    note="signal structure methods are pure uninterpreted functions (assumption); the explicit-constraint loops are covered by their frame only (they add pairs to U_U, all of which reach all_constraints)")]

def register(reg):
  reg.declare_class('GenDAGPass',F)
  for c in contracts(): reg.add(c)
