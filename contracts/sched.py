"""C01/C02: the Kahn scheduler of pymtl3/passes/sim/SimpleSchedulePass.py under contract.

Lists whose order the code does not depend on (Q: shuffled and popped; Es[u]; update_schedule: append-only) are abstracted by their element
sets; every append carries the obligation that the element is not yet present, so duplicate-freeness is proved.  The position of a block in
update_schedule is the ghost map g_pos: the number of elements appended before it."""
import z3
from pyvc.contracts import Contract, Case, Loop
from pyvc.symexec import IntT, register_spec_fun, as_int
from pyvc.values import I, B, Opq, Val
from pyvc.symcoll import ObjK, PairOf, SetOf, DictOf, CompT, Obj, SetSort, EMPTY, CARD, SetV, to_obj, card_add, card_del, card_facts, setval

F='pymtl3/passes/sim/SimpleSchedulePass.py'
Blk=ObjK('Blk')
class GArr(Val):
  def __init__(s,arr): s.arr=arr

def _gpos(ex,a,st): return I(z3.Select(st.env['g_pos'].arr,to_obj(a[0],st)))
def _grem(ex,a,st): return SetV(z3.Select(st.env['g_rem'].arr,to_obj(a[0],st)),Blk)
register_spec_fun('gpos',_gpos,lambda x: 0)
register_spec_fun('grem',_grem,lambda x: set())
def _fin_eq(ex,a,st):
  S=setval(a[0],st)[0]; T=setval(a[1],st)[0]
  return B(z3.And(z3.Implies(z3.And(z3.IsSubset(S,T),CARD(S)==CARD(T)),S==T),CARD(S)>=0,CARD(T)>=0))
register_spec_fun('finite_subset_eq',_fin_eq,lambda s,t: True)

TopT=CompT('Component',{'_dag.final_upblks':SetOf(Blk),'_dag.all_constraints':SetOf(PairOf(Blk,Blk)),'get_all_update_ff()':SetOf(Blk),'_sched.present':IntT(),'_dsl.all_update_ff':SetOf(Blk)})

def ghost_init(ex,st):
  st.env['g_pos']=GArr(z3.K(Obj,z3.IntVal(-1))); st.env['g_rem']=GArr(z3.K(Obj,EMPTY))
  for f in card_facts(EMPTY): st.pc.append(f)

def h_ind_inc(ex,st):
  # after `InD[v] += 1` in the edge loop: u becomes a recorded predecessor of v
  u=to_obj(st.env['u'],st); v=to_obj(st.env['v'],st); R=st.env['g_rem'].arr; old=z3.Select(R,v)
  st.env['g_rem']=GArr(z3.Store(R,v,z3.Store(old,u,True)))
  for f in card_add(old,u): st.pc.append(f)
def h_ind_dec(ex,st):
  # after `InD[v] -= 1` in the main loop: the scheduled block u is no longer a pending predecessor of v
  u=to_obj(st.env['u'],st); v=to_obj(st.env['v'],st); R=st.env['g_rem'].arr; old=z3.Select(R,v)
  st.env['g_rem']=GArr(z3.Store(R,v,z3.Store(old,u,False)))
  for f in card_del(old,u): st.pc.append(f)
def h_sched_append(ex,st):
  # after `update_schedule.append( u )`: the position of u is the number of blocks scheduled before it
  u=to_obj(st.env['u'],st); sch=st.heap[(st.env['update_schedule'].id,'arr')]
  st.env['g_pos']=GArr(z3.Store(st.env['g_pos'].arr,u,CARD(sch)-1))

EDGES="forall(a, b, (a in grem(b)) == ((a, b) in E))"
ES="forall(a, b, (b in at(Es, a)) == ((a, b) in E))"
IND="forall(b, implies(b in V, getv(InD, b) == card(grem(b)) and card(grem(b)) >= 0 and ((card(grem(b)) == 0) == (grem(b) == emptyset()))))"

def contracts():
  cs=[]
  cs.append(Contract(f'{F}::dump_dag', view={'top':TopT,'V':SetOf(Blk),'E':SetOf(PairOf(Blk,Blk))},
    cases=[Case('returns', ensures='True'), Case('raises', raises='Exception')], modifies=[], returns=None, property_ids=(), trusted=True,
    note="debug picture through graphviz: opaque, leaves program state alone, may raise anything (DESIGN 3.1)"))
  cs.append(Contract(f'{F}::check_schedule', view={'top':TopT,'schedule':SetListT(),'V':SetOf(Blk),'E':SetOf(PairOf(Blk,Blk)),'in_degree':DictOf(Blk,IntT())},
    cases=[Case('all-scheduled', requires='card(elems(schedule)) == card(V) and subset(V, dom(in_degree))', ensures='True', source="C02: 'each update block ... executes exactly once when the dependency graph is acyclic'"),
           Case('some-left', requires='card(elems(schedule)) != card(V) and subset(V, dom(in_degree))', raises='Exception', raises_today='UpblkCyclicError', source="C02/C11: cyclic constraints are rejected with an error instead of being scheduled arbitrarily")],
    modifies=[], returns=None, property_ids=('C01','C02'), sample=False))
  W=[ "subset(elems(update_schedule), V) and subset(elems(Q), V)", "dom(InD) == V and dom(Es) == V",
      "forall(a, b, (a in grem(b)) == (((a, b) in E) and not (a in elems(update_schedule))))", IND, ES,
      "forall(b, (b in elems(Q)) == (b in V and not (b in elems(update_schedule)) and getv(InD, b) == 0))",
      "forall(a, b, implies(((a, b) in E) and (b in elems(update_schedule)), (a in elems(update_schedule)) and gpos(a) < gpos(b)))",
      "forall(a, implies(a in elems(update_schedule), 0 <= gpos(a) and gpos(a) < card(elems(update_schedule))))", "card(elems(update_schedule)) >= 0",
      "forall(a, b, implies((a, b) in E, a in V and b in V))" ]
  INNER=[ "subset(elems(update_schedule), V) and subset(elems(Q), V)", "dom(InD) == V and dom(Es) == V",
      "forall(a, b, (a in grem(b)) == (((a, b) in E) and ((not (a in elems(update_schedule))) or (a == u and not (b in seen)))))", IND, ES,
      "forall(b, (b in elems(Q)) == (b in V and not (b in elems(update_schedule)) and getv(InD, b) == 0))",
      "u in elems(update_schedule) and u in V", "forall(a, b, implies((a, b) in E, a in V and b in V))" ]
  cs.append(Contract(f'{F}::SimpleSchedulePass.schedule_intra_cycle', view={'self':ObjK('Pass'),'top':TopT},
    cases=[Case('dag', requires='True', raises_or_ensures=True, raises='Exception', raise_only_if='card(elems(update_schedule)) != card(V)',
      ensures="elems(top._sched.update_schedule) == old(top._dag.final_upblks) - old(top.get_all_update_ff()) and "
              "forall(a, b, implies(((a, b) in old(top._dag.all_constraints)) and (a in elems(top._sched.update_schedule)) and (b in elems(top._sched.update_schedule)), gpos(a) < gpos(b))) and "
              "forall(a, implies(a in elems(top._sched.update_schedule), 0 <= gpos(a) and gpos(a) < card(elems(top._sched.update_schedule))))",
      source="C02: 'each update block ... executes exactly once' and 'explicit block ordering constraints are honoured': on normal return the schedule is a duplicate-free list of exactly the combinational blocks in which every constraint (u,v) has u before v; otherwise an error is raised")],
    loops={'in top._dag.all_constraints':Loop(invariant=["dom(InD) == V and dom(Es) == V",
                             "forall(a, b, ((a, b) in E) == (((a, b) in seen) and a in V and b in V))", EDGES, IND, ES],
                  modifies=['InD','Es','E'],ghost=['g_rem']),
           'while Q':Loop(invariant=W, modifies=['Q','update_schedule','InD'],ghost=['g_rem','g_pos']),
           'in Es[u]':Loop(invariant=INNER, modifies=['Q','InD'],ghost=['g_rem'])},
    ghost_init=ghost_init, ghost_hooks={'InD[v] += 1':h_ind_inc,'InD[v] -= 1':h_ind_dec,'update_schedule.append(u)':h_sched_append},
    abstract_lists=('update_schedule','Q'), exit_lemmas=["finite_subset_eq(elems(update_schedule), V)"],
    modifies=['top._sched.update_schedule'], returns=None, property_ids=('C01','C02'), sample=False,
    note="assumes MAMBA_DAG is not set in the environment; random.shuffle = arbitrary permutation; lists Q / Es[u] / update_schedule abstracted by element sets with proved duplicate-freeness"))
  cs+=heuristic_contracts()
  cs.append(Contract(f'{F}::SimpleSchedulePass.schedule_ff', view={'self':ObjK('Pass'),'top':TopT},
    cases=[Case('any', requires='top._sched.present == top._sched.present', ensures="elems(top._sched.schedule_ff) == old(top.get_all_update_ff())",
      source="C07: 'all registers change together': the flip-flop schedule used by every pass group except Mamba2020 is exactly the set of update_ff blocks (a list made from the set: no block twice)")],
    modifies=['top._sched.schedule_ff'], returns=None, property_ids=('C07','C01'), sample=False,
    note="list(<set>) is a duplicate-free list in arbitrary order; the hasattr(top, '_sched') guard is satisfied by the view"))
  return cs

# ---------------------------------------------------------------------------------------------- HeuristicTopoPass (Kahn with a priority queue keyed by (branchiness, id))
FH='pymtl3/passes/mamba/HeuristicTopoPass.py'
def hh_ind_dec(ex,st):
  from pyvc.symcoll import UNID
  u=UNID(as_int(st.env['u'])); v=to_obj(st.env['v'],st); R=st.env['g_rem'].arr; old=z3.Select(R,v)
  st.env['g_rem']=GArr(z3.Store(R,v,z3.Store(old,u,False)))
  for f in card_del(old,u): st.pc.append(f)
def hh_sched_append(ex,st):
  from pyvc.symcoll import UNID
  u=UNID(as_int(st.env['u'])); sch=st.heap[(st.env['update_schedule'].id,'arr')]
  st.env['g_pos']=GArr(z3.Store(st.env['g_pos'].arr,u,CARD(sch)-1))

def heuristic_contracts():
  from pyvc.symexec import TupleT, BoolT
  TopH=CompT('Component',{'_dag.final_upblks':SetOf(Blk),'_dag.all_constraints':SetOf(PairOf(Blk,Blk)),'get_all_update_ff()':SetOf(Blk),'_sched.present':IntT(),'_dsl.all_update_ff':SetOf(Blk),
                          '_dag.genblks':SetOf(Blk),'get_all_update_blocks()':SetOf(Blk)})
  QIN ="forall(p, implies(p in elems(Q), is_int_pair(p) and unid(snd(p)) in V and idof(unid(snd(p))) == snd(p) and fst(p) == getv(branchiness, unid(snd(p))) and not (unid(snd(p)) in elems(update_schedule)) and getv(InD, unid(snd(p))) == 0))"
  QOUT="forall(b, implies(b in V and not (b in elems(update_schedule)) and getv(InD, b) == 0, (getv(branchiness, b), idof(b)) in elems(Q)))"
  BR="forall(b, implies(b in V, b in dom(branchiness)))"
  COMMON=[ "subset(elems(update_schedule), V)", "dom(InD) == V and dom(Es) == V", IND, ES, QIN, BR, "forall(a, b, implies((a, b) in E, a in V and b in V))" ]
  W=COMMON+[ "forall(a, b, (a in grem(b)) == (((a, b) in E) and not (a in elems(update_schedule))))", QOUT,
      "forall(a, b, implies(((a, b) in E) and (b in elems(update_schedule)), (a in elems(update_schedule)) and gpos(a) < gpos(b)))",
      "forall(a, implies(a in elems(update_schedule), 0 <= gpos(a) and gpos(a) < card(elems(update_schedule))))", "card(elems(update_schedule)) >= 0" ]
  INNER=COMMON+[ "forall(a, b, (a in grem(b)) == (((a, b) in E) and ((not (a in elems(update_schedule))) or (a == unid(u) and not (b in seen)))))", QOUT,
      "unid(u) in elems(update_schedule) and unid(u) in V and idof(unid(u)) == u" ]
  FILL=[ "forall(p, implies(p in elems(Q), is_int_pair(p) and unid(snd(p)) in seen and unid(snd(p)) in V and idof(unid(snd(p))) == snd(p) and fst(p) == getv(branchiness, unid(snd(p))) and getv(InD, unid(snd(p))) == 0))",
         "forall(b, implies(b in seen and getv(InD, b) == 0, (getv(branchiness, b), idof(b)) in elems(Q)))" ]
  return [Contract(f'{FH}::HeuristicTopoPass.schedule_intra_cycle', view={'self':ObjK('Pass'),'top':TopH},
    cases=[Case('dag', requires="forall(b, implies(b in top._dag.final_upblks and not (b in top.get_all_update_ff()), b in top._dag.genblks or b in top.get_all_update_blocks()))",
      raises_or_ensures=True, raises='Exception', raise_only_if='card(elems(update_schedule)) != card(V)',
      ensures="elems(top._sched.update_schedule) == old(top._dag.final_upblks) - old(top.get_all_update_ff()) and "
              "forall(a, b, implies(((a, b) in old(top._dag.all_constraints)) and (a in elems(top._sched.update_schedule)) and (b in elems(top._sched.update_schedule)), gpos(a) < gpos(b))) and "
              "forall(a, implies(a in elems(top._sched.update_schedule), 0 <= gpos(a) and gpos(a) < card(elems(top._sched.update_schedule))))",
      source="C01/C02: the heuristic-topological scheduler too places every combinational block exactly once with every constraint (u,v) honoured, or raises")],
    loops={'in top._dag.all_constraints':Loop(invariant=["dom(InD) == V and dom(Es) == V",
                             "forall(a, b, ((a, b) in E) == (((a, b) in seen) and a in V and b in V))", EDGES, IND, ES],
                  modifies=['InD','Es','E'],ghost=['g_rem']),
           'in top.get_all_update_blocks()':Loop(invariant=["forall(b, (b in dom(branchiness)) == (b in top._dag.genblks or b in seen))"], modifies=['branchiness'], ghost=[]),
           'for v in V':Loop(invariant=FILL, modifies=['Q'], ghost=[]),
           'while not Q.empty()':Loop(invariant=W, modifies=['Q','update_schedule','InD'],ghost=['g_rem','g_pos']),
           'in Es[id_v[u]]':Loop(invariant=INNER, modifies=['Q','InD'],ghost=['g_rem'])},
    ghost_init=ghost_init, ghost_hooks={'InD[v] += 1':h_ind_inc,'InD[v] -= 1':hh_ind_dec,'update_schedule.append(id_v[u])':hh_sched_append},
    abstract_lists=('update_schedule',), exit_lemmas=["finite_subset_eq(elems(update_schedule), V)"],
    opaque_methods={'CountBranchesLoops':ObjK('any'),'get_update_block_host_component':ObjK('any'),'get_update_block_info':ObjK('any'),'enter':TupleT(IntT(),BoolT())},
    modifies=['top._sched.update_schedule'], returns=None, property_ids=('C01','C02'), sample=False,
    note="the branchiness computation (CountBranchesLoops.enter on the block's AST, get_update_block_host_component / get_update_block_info) is opaque: assumed pure and not to raise; "
         "PriorityQueue.get() = removal of an arbitrary queued element; id() injective on live objects; update_schedule abstracted by its element set with proved duplicate-freeness")]

from pyvc.symexec import SpecType
class SetListT(SpecType):
  tag='setlist'
  def make(s,name,st,fresh):
    from pyvc.symcoll import new_setlist
    return new_setlist(st,z3.Const(name+'.elems',SetSort),Blk)

def register(reg):
  reg.declare_class('UpblkCyclicError',None,bases=('Exception',),exception=True)
  reg.declare_class('SimpleSchedulePass',F)
  reg.declare_class('HeuristicTopoPass',FH)
  for c in contracts(): reg.add(c)
