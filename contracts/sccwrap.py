"""C11: the loop that DynamicSchedulePass generates around a cyclic group of update blocks (`wrapped_SCC_k`), verified per generated text.

The source text is captured from the real pass (applied to the cyclic family B of the design zoo in this process) and verified as
captured: N counts the iterations, the watched signals are cloned, the group is evaluated once (scc_tick_func: opaque - it may change every
signal), and the loop is left only when no watched signal differs from its clone.  Proved per text, for all signal values and widths:
  - the function returns only if every watched signal has the value it had before the last evaluation of the group (a fixed point of the
    group as far as the watched signals can tell),
  - UpblkCyclicError is raised only after 100 evaluations that each changed a watched signal, never anything else; at most 100 evaluations.
Which signals are watched (`final_variables`) is not part of this contract (bounded stand-in 'sim[B]')."""
import re, ast, sys
import z3
from pyvc.contracts import Contract, Case, Loop, GenModule
from pyvc.symexec import IntT, SpecType, register_spec_fun, as_int
from pyvc.values import I, B, Ref, Fn, Cls

GEN='generated:sccwrap'

class TreeT(SpecType):
  """the top component as the generated function sees it: attribute paths leading to Bits objects (symbolic width and value)."""
  tag='Component'
  def __init__(s,paths): s.paths=paths
  def make(s,name,st,fresh):
    root=st.alloc('Comp')
    for p in s.paths:
      cur=root; parts=p.split('.')[1:]
      for a in parts[:-1]:
        nxt=st.heap.get((cur.id,a))
        if nxt is None: nxt=st.alloc('Comp'); st.heap[(cur.id,a)]=nxt
        cur=nxt
      leaf=st.alloc('Bits'); st.heap[(leaf.id,'_nbits')]=I(z3.Int(f"{p}._nbits")); st.heap[(leaf.id,'_uint')]=I(z3.Int(f"{p}._uint"))
      st.syms.append((f"{p}._nbits",z3.Int(f"{p}._nbits"))); st.syms.append((f"{p}._uint",z3.Int(f"{p}._uint")))
      st.heap[(cur.id,parts[-1])]=leaf
    return root

def _walk(st,root,p):
  cur=root
  for a in p.split('.')[1:]: cur=st.heap[(cur.id,a)]
  return cur

def capture(repo):
  """{design name: generated source} for the cyclic zoo designs whose watched signals are plain attribute paths."""
  if repo not in sys.path: sys.path.insert(0,repo)
  from zoo import designs
  import pymtl3.passes.sim.DynamicSchedulePass as DSP
  from pymtl3.passes.sim.GenDAGPass import GenDAGPass
  import py
  out={}; caught=[]; orig=py.code.Source
  class Spy(orig):
    def __init__(s,*a,**k):
      if a and isinstance(a[0],str) and 'wrapped_SCC' in a[0]: caught.append(a[0])
      super().__init__(*a,**k)
  import pymtl3.passes.mamba.Mamba2020Pass as MP
  DSP.py.code.Source=Spy          # one `py` module: the Mamba pass sees the same spy
  try:
    for name,body in designs.family_B():
      if 'reject' in name: continue
      for tag,Pass in (('dynamic',DSP.DynamicSchedulePass),('mamba',MP.Mamba2020Pass)):
        del caught[:]
        try:
          Top,_=designs.load(name,body); t=Top(); t.elaborate(); t.apply(GenDAGPass())
          if tag=='mamba':
            from pymtl3.passes.sim.WrapGreenletPass import WrapGreenletPass
            t.apply(WrapGreenletPass())
          t.apply(Pass())
        except Exception: continue
        for i,src in enumerate(caught): out[f"{tag}:{name}#{i}"]=src
  finally: DSP.py.code.Source=orig
  return out

def _paths(src):
  """watched signals: `host=<expr>` ... `tK=host.<sub>.clone()`"""
  paths=[]; host=None
  for stmt in re.split(r'[;\n]',src):
    stmt=stmt.strip()
    m=re.match(r'host\s*=\s*(\S+)$',stmt)
    if m: host=m.group(1); continue
    m=re.match(r't(\d+)\s*=\s*host\.([\w\.]+)\.clone\(\)$',stmt)
    if m and host: paths.append((int(m.group(1)),f"{host}.{m.group(2)}"))
  return paths

def register(reg):
  _N=[0]
  reg.declare_class('UpblkCyclicError',None,bases=('Exception',),exception=True)
  gm=reg.modules.get(GEN)
  if gm is None: gm=GenModule(GEN); reg.modules[GEN]=gm
  try: srcs=capture(reg.repo)
  except Exception as e: srcs={}
  seen_text={}
  for dname,src in sorted(srcs.items()):
    if 'deepcopy(' in src.split('def ',1)[-1] or re.search(r'host\.[\w\.]*\[',src): continue      # list elements / non-Bits watched values: outside this contract
    body=src.strip().split('generated_block')[0]
    if 'def ' in body: body=body[body.index('def '):]          # the Mamba text starts with an import line
    paths=_paths(src)
    if not paths or any(not p.startswith('s.') and p!='s' for _,p in paths): continue
    k=re.sub(r'\W+','_',dname).strip('_')          # one contract per zoo design (stable names; the text itself may order the signals differently per process)
    fname=re.search(r'def (\w+)\(',body).group(1); qual=f"scc_{k}_{fname}"
    tick=f"scc_tick_{k}"
    # every function the loop body calls besides clone / the exception is an evaluation step of the group (scc_tick_func, or blkK / meta blocks in Mamba)
    called={n.func.id for n in ast.walk(ast.parse(body)) if isinstance(n,ast.Call) and isinstance(n.func,ast.Name) and n.func.id not in('UpblkCyclicError','deepcopy','print')}
    g={'UpblkCyclicError':Cls('UpblkCyclicError')}; g.update({c:Fn(tick) for c in called})
    gm.add(qual,body.replace(f"def {fname}(",f"def {qual}("),g)
    gm.add(tick,f"def {tick}():\n  pass\n",{})
    P=[p for _,p in paths]
    def mk_effect(P):
      def effect(ex,env,st,case):
        root=st.env['s']
        for i,p in enumerate(P):
          leaf=_walk(st,root,p); n=as_int(st.heap[(leaf.id,'_nbits')])
          v=st.fresh_int(f"{p}._uint'"); st.heap[(leaf.id,'_uint')]=I(v); st.pc.append(z3.And(v>=0,v<st.th.pow2(n)))
      return effect
    reg.add(Contract(f'{GEN}::{tick}', view={}, cases=[Case('any',requires='True',ensures='True')], modifies=[], returns=None, trusted=True, call_effect=mk_effect(P), sample=False,
      note="the evaluation of the cyclic group (SimpleTickPass.gen_tick_function of its blocks): opaque, may change the value of every watched signal, keeps them valid Bits"))
    def hook(ex,st,P=P):
      # ghost: the values of the watched signals at the start of this iteration (before the group is evaluated)
      for i,p in enumerate(P): st.env[f'g_pre_{i}']=st.heap[(_walk(st,st.env['s'],p).id,'_uint')]
    def ginit(ex,st,P=P):
      for i in range(len(P)): st.env[f'g_pre_{i}']=I(z3.Int(f"g_pre0_{i}"))
    reg.add(Contract(f'{GEN}::{qual}', view={'s':TreeT(P)},
      cases=[Case('any', requires=' and '.join(f"valid({p})" for p in P), raises_or_ensures=True, raises='UpblkCyclicError', raise_only_if='N > 100',
        ensures=' and '.join(f"{p}._uint == gpre({i})" for i,p in enumerate(P)),
        source="C11: 'evaluation repeats the cyclic group until every signal carrying the cycle is stable; ... If no stable assignment is reached within the iteration bound ... a cyclic-dependency error is raised; "
               "evaluation never hangs and never returns an unstable state'")],
      loops={'while True':Loop(invariant=["0 <= N and N <= 100"]+[f"valid({p})" for p in P], decreases='100 - N', modifies=[f"{p}._uint" for p in P], ghost=[f'g_pre_{i}' for i in range(len(P))])},
      ghost_init=ginit, ghost_hooks={'N += 1':hook}, modifies=[f"{p}._uint" for p in P], returns=None, property_ids=('C11',), sample=False,
      note=f"generated for zoo design {dname}; watched signals {P}"))
register_spec_fun('gpre',lambda ex,a,st: st.env[f"g_pre_{z3.simplify(as_int(a[0])).as_long()}"],lambda i: 0)
