"""C05: Bits.__getitem__/__setitem__ and datatypes/helpers.py (concat, trunc, zext, sext, reduce_*, clog2)."""
import z3
from pyvc.contracts import Contract, Case, Loop
from pyvc.symexec import (IntT, BoolT, NoneT, OtherT, ObjT, SliceT, OneOf, TupleT, BitsClsT, define_macro, register_spec_fun,
                          as_int, is_intlike, ToolError)
from pyvc.values import I, B, Ref, Tup, NoneV
from .bits import BitsT, F

H='pymtl3/datatypes/helpers.py'

# ---- spec functions ------------------------------------------------------------------------------
def _ival_sym(ex,args,st):
  v=args[0]
  if is_intlike(v): return I(as_int(v))
  if isinstance(v,Ref): return st.heap[(v.id,'_uint')]
  raise ToolError(f"ival of {v!r}")
def _ival_nat(v): return v if isinstance(v,int) else v._uint
register_spec_fun('ival',_ival_sym,_ival_nat)

def _okpart_sym(ex,args,st):
  # a slice bound that is a Bits must be a valid Bits
  v=args[0]
  if isinstance(v,Ref):
    n=as_int(st.heap[(v.id,'_nbits')]); u=as_int(st.heap[(v.id,'_uint')])
    return B(z3.And(n>=1,n<=1023,u>=0,u<st.th.pow2(n)))
  return B(True)
def _okpart_nat(v): return True if (v is None or isinstance(v,int)) else (1<=v._nbits<=1023 and 0<=v._uint<2**v._nbits)
register_spec_fun('okpart',_okpart_sym,_okpart_nat)

_parity=z3.Function('parity',z3.IntSort(),z3.IntSort())
register_spec_fun('parity',lambda ex,args,st: I(_parity(as_int(args[0]))), lambda x: bin(x).count('1')%2)

def _cat_sym(ex,args,st):
  acc=z3.IntVal(0)
  for r in args[0].items:
    acc=st.th.shl(acc,as_int(st.heap[(r.id,'_nbits')]))+as_int(st.heap[(r.id,'_uint')])
  return I(acc)
def _cat_nat(t):
  acc=0
  for b in t: acc=acc*(2**b._nbits)+b._uint
  return acc
register_spec_fun('catval',_cat_sym,_cat_nat)
def _catw_sym(ex,args,st):
  acc=z3.IntVal(0)
  for r in args[0].items: acc=acc+as_int(st.heap[(r.id,'_nbits')])
  return I(acc)
register_spec_fun('catwidth',_catw_sym,lambda t: sum(b._nbits for b in t))
def _allvalid_sym(ex,args,st):
  cs=[]; tot=z3.IntVal(0)
  for r in args[0].items:
    n=as_int(st.heap[(r.id,'_nbits')]); u=as_int(st.heap[(r.id,'_uint')])
    tot=tot+n; st.th.pow2(tot)          # make the prefix widths known exponents (only creates terms for lemma instantiation)
    cs.append(z3.And(n>=1,n<=1023,u>=0,u<st.th.pow2(n)))
  return B(z3.And(*cs) if cs else z3.BoolVal(True))
register_spec_fun('allvalid',_allvalid_sym,lambda t: all(1<=b._nbits<=1023 and 0<=b._uint<2**b._nbits for b in t))

define_macro('lo_of(i)',   '0 if isnone(i.start) else ival(i.start)')
define_macro('hi_of(i,n)', 'n if isnone(i.stop) else ival(i.stop)')
define_macro('stepped(i)', 'False if isnone(i.step) else i.step != 0')
define_macro('okslice(i)', 'okpart(i.start) and okpart(i.stop)')
define_macro('inrange(i,n)', '0 <= lo_of(i) and lo_of(i) < hi_of(i,n) and hi_of(i,n) <= n')
define_macro('field(x,lo,w)', 'modp(divp(x, lo), w)')
# value of x with bits [lo, lo+w) replaced by m  ("changes those bits and no others", closed form)
define_macro('setfield(x,lo,w,m)', 'x - shl(field(x,lo,w), lo) + shl(m, lo)')

# slice bounds: every None/int combination, plus Bits-typed bounds (which reach the code through Bits.__bool__/__int__ and
# behave as the int of their value) on both sides at once, on one side with None on the other, and mixed with an int on the other side
# (a Bits bound together with a step is exercised by the native sampler only).
Part=OneOf(NoneT(),IntT())
StepT=OneOf(NoneT(),IntT())
IdxT=OneOf(SliceT(Part,Part,StepT), SliceT(BitsT,BitsT,NoneT()), SliceT(NoneT(),BitsT,NoneT()), SliceT(BitsT,NoneT(),NoneT()),
           SliceT(IntT(),BitsT,NoneT()), SliceT(BitsT,IntT(),NoneT()), IntT(), BitsT)
PartS=OneOf(NoneT(),IntT(),BitsT)
IdxSample=OneOf(SliceT(PartS,PartS,StepT), IntT(), BitsT)

S1="C05: 'Reading x[i] or x[lo:hi] returns exactly bits lo..hi-1 as a value of width hi-lo'"
S2="C05: 'Any index or bound outside 0 <= lo < hi <= n, any stepped slice ... raises an error rather than selecting or overwriting different bits' (quantifier: 'else IndexError')"
S3="C05: 'writing a bit or slice changes those bits and no others'"
S4="C05: 'any value wider than the target slice raises an error'"

def contracts():
  cs=[]; add=cs.append
  N='self._nbits'
  add(Contract(f'{F}::Bits.__getitem__', view={'self':BitsT,'idx':IdxT},
    cases=[
      Case('slice/valid', when={'idx':'slice'}, requires=f'valid(self) and okslice(idx) and not stepped(idx) and inrange(idx,{N})',
           ensures=f'valid(result) and result._nbits == hi_of(idx,{N}) - lo_of(idx) and result._uint == field(self._uint, lo_of(idx), hi_of(idx,{N}) - lo_of(idx)) and fresh(result)', source=S1),
      Case('slice/stepped', when={'idx':'slice'}, requires='valid(self) and okslice(idx) and stepped(idx)', raises='IndexError', source=S2),
      Case('slice/bad-range', when={'idx':'slice'}, requires=f'valid(self) and okslice(idx) and not stepped(idx) and not inrange(idx,{N})', raises='IndexError', source=S2),
      Case('index/valid', when={'idx':('int','Bits')}, requires=f'valid(self) and okpart(idx) and 0 <= ival(idx) and ival(idx) < {N}',
           ensures='valid(result) and result._nbits == 1 and result._uint == field(self._uint, ival(idx), 1) and fresh(result)', source=S1),
      Case('index/bad', when={'idx':('int','Bits')}, requires=f'valid(self) and okpart(idx) and not (0 <= ival(idx) and ival(idx) < {N})', raises='IndexError', source=S2),
    ], modifies=[], returns=BitsT, property_ids=('C05',), source_of_post=S1))
  W=f'(hi_of(idx,{N}) - lo_of(idx))'
  OK=f'valid(self) and okslice(idx) and not stepped(idx) and inrange(idx,{N})'
  def setpost(m):  # closed form + the three-part reading of the statement
    return (f'self._uint == setfield(old(self._uint), lo_of(idx), {W}, {m}) and self._nbits == old(self._nbits) and valid(self)')
  add(Contract(f'{F}::Bits.__setitem__', view={'self':BitsT,'idx':IdxT,'v':OneOf(IntT(),BitsT)},
    cases=[
      Case('slice/bits-fit', when={'idx':'slice','v':'Bits'}, requires=OK+f' and valid(v) and v._nbits == {W}', ensures=setpost('v._uint'), modifies=['self._uint'], source=S3),
      Case('slice/bits-width-mismatch', when={'idx':'slice','v':'Bits'}, requires=OK+f' and valid(v) and v._nbits != {W}', raises='Exception', raises_today='ValueError', source=S4),
      Case('slice/int-fit', when={'idx':'slice','v':'int'}, requires=OK+f' and fits_s(v, {W})', ensures=setpost(f'modp(v, {W})'), modifies=['self._uint'], source=S3),
      Case('slice/int-too-wide', when={'idx':'slice','v':'int'}, requires=OK+f' and not fits_s(v, {W})', raises='Exception', raises_today='ValueError', source=S4),
      Case('slice/stepped', when={'idx':'slice'}, requires='valid(self) and okslice(idx) and stepped(idx) and okpart(v)', raises='IndexError', source=S2),
      Case('slice/bad-range', when={'idx':'slice'}, requires=f'valid(self) and okslice(idx) and okpart(v) and not stepped(idx) and not inrange(idx,{N})', raises='IndexError', source=S2),
      Case('index/bits-fit', when={'idx':('int','Bits'),'v':'Bits'}, requires=f'valid(self) and okpart(idx) and 0 <= ival(idx) and ival(idx) < {N} and valid(v) and v._nbits == 1',
           ensures='self._uint == setfield(old(self._uint), ival(idx), 1, v._uint) and self._nbits == old(self._nbits) and valid(self)', modifies=['self._uint'], source=S3),
      Case('index/bits-too-wide', when={'idx':('int','Bits'),'v':'Bits'}, requires=f'valid(self) and okpart(idx) and 0 <= ival(idx) and ival(idx) < {N} and valid(v) and v._nbits != 1', raises='Exception', raises_today='ValueError', source=S4),
      Case('index/int-fit', when={'idx':('int','Bits'),'v':'int'}, requires=f'valid(self) and okpart(idx) and 0 <= ival(idx) and ival(idx) < {N} and fits_s(v, 1)',
           ensures='self._uint == setfield(old(self._uint), ival(idx), 1, modp(v, 1)) and self._nbits == old(self._nbits) and valid(self)', modifies=['self._uint'], source=S3),
      Case('index/int-too-wide', when={'idx':('int','Bits'),'v':'int'}, requires=f'valid(self) and okpart(idx) and 0 <= ival(idx) and ival(idx) < {N} and not fits_s(v, 1)', raises='Exception', raises_today='ValueError', source=S4),
      Case('index/bad', when={'idx':('int','Bits')}, requires=f'valid(self) and okpart(idx) and okpart(v) and not (0 <= ival(idx) and ival(idx) < {N})', raises='IndexError', source=S2),
    ], modifies=[], returns=None, property_ids=('C05',), source_of_post=S3))

  # ---- helpers.py
  D="C05: 'concat, zext, sext, trunc, the reduce operators and clog2 equal their bit-level definitions for every width and value'"
  Tups=OneOf(*[TupleT(*([BitsT]*k)) for k in range(0,6)])
  add(Contract(f'{H}::concat', view={'args':Tups},
    cases=[Case('ok', requires='allvalid(args) and 1 <= catwidth(args) and catwidth(args) <= 1023',
                ensures='valid(result) and result._nbits == catwidth(args) and result._uint == catval(args) and fresh(result)', source=D),
           Case('too-wide', requires='allvalid(args) and not (1 <= catwidth(args) and catwidth(args) <= 1023)', raises='Exception', raises_today='ValueError', source="C04: widths are 1..1023")],
    modifies=[], returns=BitsT, property_ids=('C05',), note='arity enumerated 0..5 (the loop is unrolled per arity); values and widths symbolic'))
  for nm,val,ok_int,ok_cls in (
      ('trunc','modp(value._uint, W)','1 <= W and W <= value._nbits','W <= value._nbits'),
      ('zext','value._uint','W >= value._nbits and W <= 1023','W >= value._nbits'),
      ('sext','(value._uint + pow2(W) - pow2(value._nbits)) if value._uint >= pow2(value._nbits - 1) else value._uint','W >= value._nbits and W <= 1023','W >= value._nbits')):
    post=lambda W: f'valid(result) and result._nbits == {W} and result._uint == ({val.replace("W",W)}) and fresh(result)'
    add(Contract(f'{H}::{nm}', view={'value':BitsT,'new_width':OneOf(IntT(),BitsClsT())},
      cases=[Case('int/ok', when={'new_width':'int'}, requires='valid(value) and '+ok_int.replace('W','new_width'), ensures=post('new_width'), source=D),
             Case('int/bad-width', when={'new_width':'int'}, requires='valid(value) and not ('+ok_int.replace('W','new_width')+')', raises='Exception', raises_today='AssertionError', source="C05: extension to a narrower / truncation to a wider width is an error"),
             Case('type/ok', when={'new_width':'bitscls'}, requires='valid(value) and '+ok_cls.replace('W','new_width.nbits'), ensures=post('new_width.nbits'), source=D)],
      modifies=[], returns=BitsT, property_ids=('C05',), note="type form with a target on the wrong side (zext to a narrower BitsN, trunc to a wider one) is left open by the statement: precondition"))
  add(Contract(f'{H}::reduce_and', view={'value':BitsT},
    cases=[Case('bits', when={'value':'Bits'}, requires='valid(value)', ensures='valid(result) and result._nbits == 1 and result._uint == b2i(value._uint == pow2(value._nbits) - 1) and fresh(result)', source=D),
          ],
    modifies=[], returns=BitsT, property_ids=('C05',)))
  add(Contract(f'{H}::reduce_or', view={'value':BitsT},
    cases=[Case('bits', when={'value':'Bits'}, requires='valid(value)', ensures='valid(result) and result._nbits == 1 and result._uint == b2i(value._uint != 0) and fresh(result)', source=D),
          ],
    modifies=[], returns=BitsT, property_ids=('C05',)))
  add(Contract(f'{H}::reduce_xor', view={'value':BitsT},
    cases=[Case('bits', requires='valid(value)', ensures='valid(result) and result._nbits == 1 and result._uint == parity(value._uint) and fresh(result)', source=D+" (parity = xor of all bits: parity(0)=0, parity(x)=(x mod 2 + parity(x div 2)) mod 2)")],
    loops={1:Loop(invariant=['value >= 0','pop_count >= 0','(pop_count + parity(value)) % 2 == parity(old(value._uint))'],
                  decreases='value',
                  lemmas=['parity(value) == (value % 2 + parity(value // 2)) % 2','parity(0) == 0','0 <= parity(value) and parity(value) <= 1','0 <= parity(value // 2) and parity(value // 2) <= 1','0 <= parity(old(value._uint)) and parity(old(value._uint)) <= 1'])},
    modifies=[], returns=BitsT, property_ids=('C05',)))
  def clog2_inputs(repo,reg):
    for N in range(-2,2**16+1): yield {'N':N}
    for k in range(16,1101):
      for d in (-2,-1,0,1,2): yield {'N':2**k+d}
  add(Contract(f'{H}::clog2', view={'N':IntT()},
    cases=[Case('ok', requires='N >= 1', ensures='result >= 0 and pow2(result) >= N and (result == 0 or pow2(result - 1) < N)', source="C05 quantifier: 'forall N>=1: clog2(N) == min{k : 2^k >= N}'"),
           Case('bad', requires='N < 1', raises='Exception', raises_today='AssertionError', source="code-derived: clog2 is defined for N >= 1")],
    modifies=[], returns=IntT(), property_ids=('C05',), standin_inputs=clog2_inputs,
    bounded="all N in [-2, 2^16] and N = 2^k+d for 16 <= k <= 1100, |d| <= 2 (used only while the body is out of reach, e.g. floating point)"))
  return cs
