"""C18: byte-array helpers and the functional memory (pymtl3/extra/pypy/fast_bytearray_funcs.py, stdlib/mem/MagicMemoryFL.py)."""
import z3
from pyvc.contracts import Contract, Case
from pyvc.symexec import IntT, OneOf, ObjT, define_macro
from pyvc.symcoll import ByteArrayT, ConstInt
from .bits import BitsT

FB='pymtl3/extra/pypy/fast_bytearray_funcs.py'
NB=OneOf(*[ConstInt(k) for k in range(1,9)])
S="C18: 'every read returns for each byte the data of the most recent earlier-processed write to that byte' - little-endian byte view of the memory image"

def contracts():
  cs=[]
  # little-endian value of bytes [a, a+n) written out for the enumerated n (addresses and contents symbolic)
  def le(n): return ' + '.join(f'byteat(arr, ival(addr) + {i}) * {256**i}' for i in range(n))
  for_n=lambda f: [f(k) for k in range(1,9)]
  cs.append(Contract(f'{FB}::read_bytearray_bits', view={'arr':ByteArrayT(),'addr':OneOf(IntT(),BitsT),'nbytes':NB},
    cases=[Case(f'n{k}', when=None, requires=f'nbytes == {k} and okpart(addr) and 0 <= ival(addr) and ival(addr) + {k} <= blen(arr)',
                ensures=f'valid(result) and result._nbits == {8*k} and result._uint == {le(k)} and fresh(result)', source=S) for k in range(1,9)]+
          [Case('out-of-range', requires='okpart(addr) and ival(addr) >= 0 and ival(addr) + nbytes > blen(arr)', raises='Exception', raises_today='IndexError', source="code-derived: reading past the end of the image is an error")],
    modifies=[], returns=BitsT, property_ids=('C18',), note="nbytes enumerated 1..8 (the loop unrolls completely); addresses and memory contents symbolic"))
  wr_post=lambda k: ' and '.join([f'byteat(arr, ival(addr) + {i}) == modp(divp(dval(data), {8*i}), 8)' for i in range(k)]+
                                 [f'forall_int(j, implies(j < ival(addr) or j >= ival(addr) + {k}, byteat(arr, j) == old(byteat(arr, j))))','blen(arr) == old(blen(arr))'])
  cs.append(Contract(f'{FB}::write_bytearray_bits', view={'arr':ByteArrayT(),'addr':OneOf(IntT(),BitsT),'nbytes':NB,'data':OneOf(BitsT,IntT())},
    cases=[Case(f'n{k}', requires=f'nbytes == {k} and okpart(addr) and okdata(data) and 0 <= ival(addr) and ival(addr) + {k} <= blen(arr)',
                ensures=wr_post(k), source="C18: 'the final memory image equals that of applying the processed requests one after another': a write sets exactly bytes [addr, addr+nbytes) to the little-endian bytes of the data and leaves every other byte alone") for k in range(1,9)],
    modifies=['arr.arr'], returns=None, property_ids=('C18',), note="nbytes enumerated 1..8; data is a Bits of at least 8 bits or a non-negative int"))
  return cs

def register(reg):
  from pyvc.symexec import register_spec_fun, as_int, is_intlike
  from pyvc.values import I, B, Ref
  def okdata(ex,a,st):
    v=a[0]
    if isinstance(v,Ref):
      n=as_int(st.heap[(v.id,'_nbits')]); u=as_int(st.heap[(v.id,'_uint')]); return B(z3.And(n>=8,n<=1023,u>=0,u<st.th.pow2(n)))
    return B(as_int(v)>=0)
  register_spec_fun('okdata',okdata,lambda v: (8<=v._nbits<=1023 and 0<=v._uint<2**v._nbits) if not isinstance(v,int) else v>=0)
  register_spec_fun('dval',lambda ex,a,st: I(as_int(a[0])) if is_intlike(a[0]) else st.heap[(a[0].id,'_uint')], lambda v: v if isinstance(v,int) else v._uint)
  for c in contracts(): reg.add(c)

# ---------------------------------------------------------------------------------------------- atomic operations
FL='pymtl3/stdlib/mem/MagicMemoryFL.py'
define_macro('sint(b)', '(b._uint - pow2(b._nbits)) if b._uint >= pow2(b._nbits - 1) else b._uint')     # two's-complement value
AMO_SPEC={ 'AMO_ADD':'modp(m._uint + a._uint, m._nbits)', 'AMO_AND':'band(m._uint, a._uint)', 'AMO_OR':'bor(m._uint, a._uint)', 'AMO_XOR':'bxor(m._uint, a._uint)',
  'AMO_SWAP':'a._uint', 'AMO_MIN':'m._uint if sint(m) < sint(a) else a._uint', 'AMO_MAX':'m._uint if sint(m) > sint(a) else a._uint',
  'AMO_MINU':'min(m._uint, a._uint)', 'AMO_MAXU':'max(m._uint, a._uint)' }
def amo_contracts():
  cs=[]
  for op,spec in AMO_SPEC.items():
    cs.append(Contract(f'{FL}::AMO_FUNS.{op}', view={'m':BitsT,'a':BitsT},
      cases=[Case('same-width', requires='valid(m) and valid(a) and m._nbits == a._nbits', ensures=f'valid(result) and result._nbits == m._nbits and result._uint == ({spec})',
                  source=f"C18: 'atomic operations return the old value and store the operation's result' - {op}: "+{'AMO_MIN':'signed minimum','AMO_MAX':'signed maximum','AMO_MINU':'unsigned minimum','AMO_MAXU':'unsigned maximum'}.get(op,op[4:].lower()))],
      modifies=[], returns=BitsT, property_ids=('C18',)))
  return cs
_reg0=register
def register(reg):
  _reg0(reg)
  for c in amo_contracts(): reg.add(c)
