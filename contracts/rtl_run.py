"""runs rtlvc specs (one process per configuration) and returns results in the same shape as pyvc contract results."""
import os, sys, time, traceback, hashlib, ast, inspect
from multiprocessing import Pool

def _job(a):
  speckey,cfg,repo,timeout_ms=a
  t0=time.time()
  if repo not in sys.path: sys.path.insert(0,repo)
  import contracts
  from rtlvc.check import verify_config, cfg_name
  from rtlvc.bvsem import Unsup
  spec=contracts.rtl_spec(speckey)
  try:
    obls,info,m=verify_config(spec,cfg,repo,timeout_ms)
    src=''.join(sorted(s for (_,_,s) in m.blk_ast.values()))
    return dict(key=f"{speckey}[{cfg_name(cfg)}]",ok=True,obligations=obls,info=info,time=time.time()-t0,kind='rtlvc',lines=None,
                ast_hash=hashlib.sha256(src.encode()).hexdigest(),blocks=sorted(b.__name__ for b in m.blk_ast))
  except Unsup as e:
    return dict(key=f"{speckey}[{cfg_name(cfg)}]",ok=False,unsupported=True,error=f"out of reach: {e}",trace=traceback.format_exc(),obligations=[],time=time.time()-t0,kind='rtlvc')
  except Exception as e:
    return dict(key=f"{speckey}[{cfg_name(cfg)}]",ok=False,error=f"{type(e).__name__}: {e}",trace=traceback.format_exc(),obligations=[],time=time.time()-t0,kind='rtlvc')

def run_specs(specs,tier,repo,timeout_ms=None,procs=16):
  timeout_ms=timeout_ms or (60000 if tier=='quick' else 600000)
  jobs=[(sp.key,cfg,repo,timeout_ms) for sp in specs for cfg in sp.configs(tier)]
  with Pool(min(procs,max(1,len(jobs)))) as p: return p.map(_job,jobs,chunksize=1)
