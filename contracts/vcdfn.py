"""C16: the per-cycle VCD writer (the closure `dump_vcd_inner` built by VcdGenerationPass.make_vcd_func) under contract.

Its closure variables are inputs of the view: net_details (a list, viewed as {position: (signal, symbol)} because the code indexes
last_values by position), last_values ({position: last dumped value string}), vcd_sim_ncycles, clock_symbol, vcd_file.  The value string of
a signal in the current cycle is the pure function  cur(sig) = eval(repr(sig)).to_bits().to_vcd_str()  of the signal (the simulator state
does not change during the call).  print() calls are dropped by the executor; ghost hooks on them record which positions were printed."""
import z3
from pyvc.contracts import Contract, Case, Loop
from pyvc.symexec import IntT, register_spec_fun
from pyvc.values import I, B, Opq
from pyvc.symcoll import ObjK, PairOf, DictOf, SetV, EMPTY, Obj, to_obj, declare_pure_method

F='pymtl3/passes/tracing/VcdGenerationPass.py'
Sig=ObjK('Sig'); Sym=ObjK('Sym'); Str=ObjK('Str')
declare_pure_method('repr_of',1,'obj'); declare_pure_method('eval_of',1,'obj'); declare_pure_method('to_bits',1,'obj'); declare_pure_method('to_vcd_str',1,'obj')
register_spec_fun('gprinted',lambda ex,a,st: st.env['g_printed'],lambda: set())
def ghost_init(ex,st): st.env['g_printed']=SetV(EMPTY,IntT())
def h_print(ex,st):
  st.env['g_printed']=SetV(z3.Store(st.env['g_printed'].arr,to_obj(st.env['i'],st),True),IntT())

CUR=lambda k: f"to_vcd_str(to_bits(eval_of(repr_of(getv(net_details, {k})[0]))))"

def contracts():
  return [Contract(f'{F}::VcdGenerationPass.make_vcd_func.dump_vcd_inner',
    view={'s':ObjK('top'),'net_details':DictOf(IntT(),PairOf(Sig,Sym)),'last_values':DictOf(IntT(),Str),'vcd_sim_ncycles':IntT(),'clock_symbol':Sym,'vcd_file':ObjK('file')},
    cases=[Case('any', requires='subset(dom(net_details), dom(last_values)) and vcd_sim_ncycles >= 0',
      ensures=f"forall_int(k, implies(k in dom(net_details), getv(last_values, k) == {CUR('k')} and ((k in gprinted()) == (old(getv(last_values, k)) != {CUR('k')})))) and "
              "forall_int(k, implies(not (k in dom(net_details)), getv(last_values, k) == old(getv(last_values, k)))) and "
              "vcd_sim_ncycles == old(vcd_sim_ncycles) + 1 and next_neg_edge == 100 * old(vcd_sim_ncycles) + 50 and next_pos_edge == 100 * old(vcd_sim_ncycles) + 100",
      source="C16: 'the VCD file ... gives for every signal ... at every simulated cycle exactly the packed value that signal held ... and the clock toggles once per cycle': in every cycle a value line is "
             "written for exactly the nets whose value string differs from the one last written, the remembered strings become the current ones, the falling and rising clock edges are stamped 100n+50 and 100n+100, "
             "and the cycle counter advances by one")],
    loops={'in enumerate(net_details)':Loop(invariant=[
        f"forall_int(k, implies(k in seen, getv(last_values, k) == {CUR('k')} and ((k in gprinted()) == (pre(getv(last_values, k)) != {CUR('k')}))))",
        "forall_int(k, implies(not (k in seen), getv(last_values, k) == pre(getv(last_values, k)) and not (k in gprinted())))",
        "dom(last_values) == pre(dom(last_values))"], modifies=['last_values'], ghost=['g_printed'])},
    ghost_init=ghost_init, ghost_hooks={"print(f'{net_bits_bin_str}{symbol}', file=vcd_file)":h_print},
    opaque_attrs=True, pure_methods={'to_bits':1,'to_vcd_str':1}, post_locals=True,
    modifies=['last_values'], returns=None, property_ids=('C16',), sample=False,
    note="closure variables are inputs; eval(repr(signal)), to_bits() and to_vcd_str() are pure functions of the signal during the call (the simulator state is not changed by the dump) and do not raise; "
         "the text written by print() is not modelled beyond which net positions get a value line (ghost set) and the two time stamps")]

def register(reg):
  for c in contracts(): reg.add(c)
