"""C19: round-robin arbiters (pymtl3/stdlib/basic_rtl/arbiters.py + registers.RegEnRst) via rtlvc."""
import z3
from rtlvc.check import Spec

def onehot(x): return z3.And(x!=0, x&(x-1)==0)
def onehot0(x): return x&(x-1)==0

class ArbSpec(Spec):
  prop_ids=('C19',)
  en=False
  def configs(s,tier): return [dict(nreqs=n) for n in (range(2,9) if tier=='quick' else range(2,17))]
  def bmc_depth(s,cfg): return 2*cfg['nreqs']+2
  def inv(s,V): return onehot(V.S('s.priority_reg.out'))
  def covers(s,V):
    return [('a-grant-happens',V.O('s.grants')!=0),('nothing-requested',V.I('s.reqs')==0)]
  def reset_clauses(s,V):
    return [('reset-restores-priority-to-input-0', V.N('s.priority_reg.out')==1)]
  def clauses(s,V):
    n=V.cfg['nreqs']
    ptr=V.S('s.priority_reg.out'); nptr=V.N('s.priority_reg.out'); reqs=V.I('s.reqs'); g=V.O('s.grants')
    adv = g!=0 if not s.en else z3.And(g!=0, V.I('s.en')==1)
    cl=[('grants-onehot0', onehot0(g)), ('grants-subset-of-reqs', g&~reqs==0), ('grant-iff-request', (g!=0)==(reqs!=0))]
    # "grant == first requester at or after priority pointer": for pointer position p, rotate so that p becomes bit 0,
    # isolate the lowest requesting bit, rotate back
    firsts=[]
    for p in range(n):
      rr=z3.RotateRight(reqs,p); low=rr&(-rr)
      firsts.append(z3.Implies(ptr==z3.BitVecVal(1<<p,n), g==z3.RotateLeft(low,p)))
    cl.append(('grant-is-first-requester-at-or-after-pointer', z3.And(*firsts)))
    cl.append(('pointer-rotates-past-the-granted-input', z3.Implies(adv, nptr==z3.RotateLeft(g,1))))
    cl.append(('pointer-holds-otherwise', z3.Implies(z3.Not(adv), nptr==ptr)))
    # fairness ranking: d(i) = (i - pos(ptr)) mod n strictly decreases for a requester that is passed over while the pointer advances
    def dist(pv,i):
      e=z3.BitVecVal(0,8)
      for p in range(n): e=z3.If(pv==z3.BitVecVal(1<<p,n), z3.BitVecVal((i-p)%n,8), e)
      return e
    fair=[]
    for i in range(n):
      ri=z3.Extract(i,i,reqs)==1; gi=z3.Extract(i,i,g)==1
      fair.append(z3.Implies(z3.And(ri,z3.Not(gi),adv), z3.ULT(dist(nptr,i),dist(ptr,i))))
      fair.append(z3.Implies(z3.And(ri,dist(ptr,i)==0), gi))
    cl.append(('fairness-ranking-decreases', z3.And(*fair)))
    return cl

class RRArb(ArbSpec):
  key='pymtl3/stdlib/basic_rtl/arbiters.py::RoundRobinArbiter'
  def build(s,cfg):
    from pymtl3.stdlib.basic_rtl.arbiters import RoundRobinArbiter
    return RoundRobinArbiter(cfg['nreqs'])

class RRArbEn(ArbSpec):
  key='pymtl3/stdlib/basic_rtl/arbiters.py::RoundRobinArbiterEn'
  en=True
  def build(s,cfg):
    from pymtl3.stdlib.basic_rtl.arbiters import RoundRobinArbiterEn
    return RoundRobinArbiterEn(cfg['nreqs'])

SPECS=[RRArb(),RRArbEn()]
