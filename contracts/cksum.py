"""C20 (checksum half): the FL function and the word-splitting helper, against the Fletcher specification of the statement."""
import z3
from pyvc.contracts import Contract, Case
from pyvc.symexec import IntT, ObjT, TupleT, OneOf, register_spec_fun, as_int
from pyvc.values import I, B, ClsN, Fn
from .bits import BitsT

FL='examples/ex02_cksum/ChecksumFL.py'
UT='examples/ex02_cksum/utils.py'

def _fl_sym(ex,args,st):
  s1=z3.IntVal(0); s2=z3.IntVal(0)
  for r in args[0].items:
    w=as_int(st.heap[(r.id,'_uint')]); s1=(s1+w)%65536; s2=(s2+s1)%65536
  return I(s2*65536+s1)
def _fl_nat(ws):
  s1=s2=0
  for w in ws: s1=(s1+int(w._uint))%65536; s2=(s2+s1)%65536
  return s2*65536+s1
register_spec_fun('fletcher',_fl_sym,_fl_nat)
def _all16_sym(ex,args,st):
  cs=[]
  for r in args[0].items:
    n=as_int(st.heap[(r.id,'_nbits')]); u=as_int(st.heap[(r.id,'_uint')]); cs.append(z3.And(n==16,u>=0,u<65536))
  return B(z3.And(*cs))
register_spec_fun('all16',_all16_sym,lambda ws: all(w._nbits==16 and 0<=w._uint<65536 for w in ws))

def module_globals():
  return {FL:{'b16':ClsN('Bits',z3.IntVal(16)),'concat':Fn('concat')}, UT:{}}

def contracts():
  S="C20: 'The checksum unit's FL, CL and RTL models likewise return the same checksum for every input' == spec(w): sum1=(sum1+w) mod 2^16, sum2=(sum2+sum1) mod 2^16, result = sum2.sum1"
  cs=[]
  cs.append(Contract(f'{FL}::checksum', view={'words':TupleT(*([BitsT]*8))},
    cases=[Case('eight-words', requires='all16(words)', ensures='valid(result) and result._nbits == 32 and result._uint == fletcher(words) and fresh(result)', source=S)],
    modifies=[], returns=BitsT, property_ids=('C20',)))
  post=' and '.join([f'result[{i}]._nbits == 16 and result[{i}]._uint == field(bits._uint, {16*i}, 16)' for i in range(8)])
  cs.append(Contract(f'{UT}::b128_to_words', view={'bits':BitsT},
    cases=[Case('b128', requires='valid(bits) and bits._nbits == 128', ensures='len(result) == 8 and '+post, source="C20: the 128-bit message is the concatenation of eight 16-bit words, word 0 least significant"),
           Case('other-width', requires='valid(bits) and bits._nbits != 128', raises='Exception', raises_today='AssertionError')],
    modifies=[], returns=None, property_ids=('C20',)))
  return cs
