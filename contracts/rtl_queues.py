"""C17: RTL queues (stdlib/queues/queues.py and stdlib/stream/queues.py) via rtlvc: FIFO refinement + rdy/val table."""
import z3
from rtlvc.check import Spec

def zx(x,w): return z3.ZeroExt(w-x.size(),x) if x.size()<w else x

class QueueSpec(Spec):
  prop_ids=('C17',)
  kind='normal'; flavor='enqdeq'; cls=None; mod=None
  def configs(s,tier):
    ns=(1,2,3,4) if tier=='quick' else (1,2,3,4,5,7,8)
    return [dict(num_entries=n,width=w) for n in ns for w in (1,8)]
  def bmc_depth(s,cfg): return 2*cfg['num_entries']+4
  def build(s,cfg):
    import importlib
    from pymtl3 import mk_bits
    m=importlib.import_module(s.mod)
    return getattr(m,s.cls)(mk_bits(cfg['width']),cfg['num_entries'])
  # ---- abstraction: (count, [entries from the head])
  def absn(s,V,which):
    n=V.cfg['num_entries']; R=(V.S if which=='st' else V.N)
    if n==1:
      full=R('s.q.full'); return zx(full,8),[R('s.q.entry')]
    c=R('s.ctrl.count'); h=R('s.ctrl.head')
    rf='s.dpath.queue.regs' if s.flavor=='enqdeq' else 's.dpath.rf.regs'
    regs=[R(f'{rf}[{i}]') for i in range(n)]
    ent=[]
    for i in range(n):
      # regs[(head+i) mod n]
      e=regs[0]
      for hv in range(n):
        e=z3.If(h==hv,regs[(hv+i)%n],e)
      ent.append(e)
    return zx(c,8),ent
  def inv(s,V,which='st'):
    n=V.cfg['num_entries']
    if n==1: return z3.BoolVal(True)
    R=V.S
    c=zx(R('s.ctrl.count'),8); h=zx(R('s.ctrl.head'),8); t=zx(R('s.ctrl.tail'),8)
    return z3.And(z3.ULE(c,n),z3.ULT(h,n),z3.ULT(t,n), t==z3.URem(h+c,z3.BitVecVal(n,8)))
  def io(s,V):
    if s.flavor=='enqdeq':
      return dict(enq_fire=V.I('s.enq.en')==1,deq_fire=V.I('s.deq.en')==1,enq_rdy=V.O('s.enq.rdy')==1,deq_rdy=V.O('s.deq.rdy')==1,
                  enq_msg=V.I('s.enq.msg'),deq_msg=V.O('s.deq.ret'),enq_offer=V.I('s.enq.en')==1,deq_offer=V.I('s.deq.en')==1)
    return dict(enq_fire=z3.And(V.I('s.recv.val')==1,V.O('s.recv.rdy')==1),deq_fire=z3.And(V.O('s.send.val')==1,V.I('s.send.rdy')==1),
                enq_rdy=V.O('s.recv.rdy')==1,deq_rdy=V.O('s.send.val')==1,enq_msg=V.I('s.recv.msg'),deq_msg=V.O('s.send.msg'),
                enq_offer=V.I('s.recv.val')==1,deq_offer=V.I('s.send.rdy')==1)
  def legal(s,V):
    if s.flavor=='enqdeq':
      return z3.And(z3.Implies(V.I('s.enq.en')==1,V.O('s.enq.rdy')==1),z3.Implies(V.I('s.deq.en')==1,V.O('s.deq.rdy')==1))
    return z3.BoolVal(True)
  def clauses(s,V):
    n=V.cfg['num_entries']; io=s.io(V)
    c,ent=s.absn(V,'st'); c2,ent2=s.absn(V,'nxt')
    N=z3.BitVecVal(n,8); full=c==N; empty=c==0
    enq,deq=io['enq_fire'],io['deq_fire']
    cl=[]
    # ---- ready/valid table (statement of C17)
    if s.kind=='normal':
      cl.append(('enq-ready-iff-not-full', io['enq_rdy']==z3.Not(full)))
      cl.append(('deq-ready-iff-not-empty', io['deq_rdy']==z3.Not(empty)))
    elif s.kind=='pipe':
      cl.append(('enq-ready-iff-not-full-or-dequeue-this-cycle', io['enq_rdy']==z3.Or(z3.Not(full),z3.And(full,io['deq_offer']))))
      cl.append(('deq-ready-iff-not-empty', io['deq_rdy']==z3.Not(empty)))
    else:
      cl.append(('enq-ready-iff-not-full', io['enq_rdy']==z3.Not(full)))
      cl.append(('deq-ready-iff-not-empty-or-enqueue-this-cycle', io['deq_rdy']==z3.Or(z3.Not(empty),z3.And(empty,io['enq_offer']))))
    # ---- occupancy
    cl.append(('count-output-is-occupancy', zx(V.O('s.count'),8)==c))
    cl.append(('occupancy-never-exceeds-capacity', z3.ULE(c2,N)))
    # ---- delivered message is the oldest accepted one (bypass: the incoming one when empty)
    head_msg = ent[0] if s.kind!='bypass' else z3.If(empty,io['enq_msg'],ent[0])
    cl.append(('dequeued-message-is-the-oldest', z3.Implies(deq, io['deq_msg']==head_msg)))
    # ---- sequence evolution: seq' == (seq ++ [msg] if enq)[1:] if deq   (none lost, duplicated, invented; order kept)
    one=z3.BitVecVal(1,8)
    exp_c = c + z3.If(enq,one,z3.BitVecVal(0,8)) - z3.If(deq,one,z3.BitVecVal(0,8))
    cl.append(('count-evolves-by-enq-minus-deq', c2==exp_c))
    ext=ent+[io['enq_msg']]      # seq ++ [msg] (positions >= count hold msg when enq; only positions < count' are compared)
    conj=[]
    for i in range(n):
      # element i of the new sequence = element i+deq of (seq ++ [msg])
      def pick(j):
        # (seq ++ [msg])[j]: seq[j] if j < count else msg
        if j>=n: return io['enq_msg']
        return z3.If(z3.ULT(z3.BitVecVal(j,8),c),ent[j],io['enq_msg'])
      expected=z3.If(deq,pick(i+1),pick(i))
      conj.append(z3.Implies(z3.ULT(z3.BitVecVal(i,8),c2), ent2[i]==expected))
    cl.append(('sequence-is-old-sequence-plus-enqueued-minus-dequeued', z3.And(*conj)))
    return cl
  def covers(s,V):
    io=s.io(V); c,_=s.absn(V,'st'); n=V.cfg['num_entries']
    cv=[('enqueue-happens',io['enq_fire']),('dequeue-happens',io['deq_fire']),('queue-full',c==n),('queue-empty',c==0)]
    if n>1 or s.kind!='normal': cv.append(('enqueue-and-dequeue-in-one-cycle',z3.And(io['enq_fire'],io['deq_fire'])))
    return cv
  def reset_clauses(s,V):
    c2,_=s.absn(V,'nxt')
    return [('reset-empties-the-queue', c2==0)]

def mk(kind,flavor,cls,mod):
  sp=QueueSpec(); sp.kind=kind; sp.flavor=flavor; sp.cls=cls; sp.mod=mod
  sp.key=f"{mod.replace('.','/')}.py::{cls}"
  return sp

SPECS=[mk('normal','enqdeq','NormalQueueRTL','pymtl3.stdlib.queues.queues'),
       mk('pipe','enqdeq','PipeQueueRTL','pymtl3.stdlib.queues.queues'),
       mk('bypass','enqdeq','BypassQueueRTL','pymtl3.stdlib.queues.queues'),
       mk('normal','stream','NormalQueueRTL','pymtl3.stdlib.stream.queues'),
       mk('pipe','stream','PipeQueueRTL','pymtl3.stdlib.stream.queues'),
       mk('bypass','stream','BypassQueueRTL','pymtl3.stdlib.stream.queues')]
