"""C17: RTL queues (stdlib/queues/queues.py and stdlib/stream/queues.py) via rtlvc: FIFO refinement + rdy/val table."""
import z3
from rtlvc.check import Spec

def zx(x,w): return z3.ZeroExt(w-x.size(),x) if x.size()<w else x

class QueueSpec(Spec):
  prop_ids=('C17',)
  kind='normal'; flavor='enqdeq'; cls=None; mod=None
  fixed=None          # capacity of classes without a size parameter
  def configs(s,tier):
    if s.fixed is not None: return [dict(num_entries=s.fixed,width=w) for w in (1,8)]
    ns=(1,2,3,4) if tier=='quick' else (1,2,3,4,5,7,8)
    if s.flavor=='valrdy': ns=tuple(n for n in ns if n>=2)
    return [dict(num_entries=n,width=w) for n in ns for w in (1,8)]
  def bmc_depth(s,cfg): return 2*cfg['num_entries']+4
  def build(s,cfg):
    import importlib
    from pymtl3 import mk_bits
    m=importlib.import_module(s.mod)
    if s.fixed is not None: return getattr(m,s.cls)(mk_bits(cfg['width']))
    if s.flavor=='valrdy': return getattr(m,s.cls)(cfg['num_entries'],mk_bits(cfg['width']))
    return getattr(m,s.cls)(mk_bits(cfg['width']),cfg['num_entries'])
  # ---- abstraction: (count, [entries from the head])
  def absn(s,V,which):
    n=V.cfg['num_entries']; R=(V.S if which=='st' else V.N)
    if s.cls=='BypassQueue2RTL':       # two 1-entry bypass queues in series: the head is q2's buffer when q2 is full
      f1,f2=R('s.q1.full.out'),R('s.q2.full.out'); b1,b2=R('s.q1.buffer.out'),R('s.q2.buffer.out')
      return zx(f1,8)+zx(f2,8),[z3.If(f2==1,b2,b1),b1]
    if s.fixed==1:
      full=R('s.full.out' if s.flavor=='enrdy' else 's.full'); return zx(full,8),[R('s.buffer.out')]
    if s.flavor=='valrdy':
      e=R('s.ctrl.enq_ptr'); d=R('s.ctrl.deq_ptr'); f=R('s.ctrl.full'); N8=z3.BitVecVal(n,8)
      c=z3.If(f==1,N8,z3.If(z3.UGE(e,d),zx(e,8)-zx(d,8),N8-(zx(d,8)-zx(e,8))))
      regs=[R(f's.dpath.queue.regs[{i}]') for i in range(n)]; ent=[]
      for i in range(n):
        x=regs[0]
        for hv in range(n): x=z3.If(d==hv,regs[(hv+i)%n],x)
        ent.append(x)
      return c,ent
    if n==1:
      full=R('s.q.full'); return zx(full,8),[R('s.q.entry')]
    c=R('s.ctrl.count'); h=R('s.ctrl.head')
    rf='s.dpath.queue.regs' if s.flavor=='enqdeq' else 's.dpath.rf.regs'
    regs=[R(f'{rf}[{i}]') for i in range(n)]
    ent=[]
    for i in range(n):
      # regs[(head+i) mod n]
      e=regs[0]
      for hv in range(n):
        e=z3.If(h==hv,regs[(hv+i)%n],e)
      ent.append(e)
    return zx(c,8),ent
  def inv(s,V,which='st'):
    n=V.cfg['num_entries']
    if s.cls=='BypassQueue2RTL': return z3.BoolVal(True)       # every combination of the two full bits is reachable
    if s.fixed is not None or n==1: return z3.BoolVal(True)
    R=V.S
    if s.flavor=='valrdy':
      e=zx(R('s.ctrl.enq_ptr'),8); d=zx(R('s.ctrl.deq_ptr'),8); f=R('s.ctrl.full')
      return z3.And(z3.ULT(e,n),z3.ULT(d,n),z3.Implies(f==1,e==d))
    c=zx(R('s.ctrl.count'),8); h=zx(R('s.ctrl.head'),8); t=zx(R('s.ctrl.tail'),8)
    return z3.And(z3.ULE(c,n),z3.ULT(h,n),z3.ULT(t,n), t==z3.URem(h+c,z3.BitVecVal(n,8)))
  def io(s,V):
    if s.flavor=='enrdy':     # push interfaces: the producer raises enq.en (only when enq.rdy), the queue raises deq.en (only when deq.rdy)
      return dict(enq_fire=V.I('s.enq.en')==1,deq_fire=V.O('s.deq.en')==1,enq_rdy=V.O('s.enq.rdy')==1,deq_rdy=None,
                  enq_msg=V.I('s.enq.msg'),deq_msg=V.O('s.deq.msg'),enq_offer=V.I('s.enq.en')==1,deq_offer=V.I('s.deq.rdy')==1)
    if s.flavor=='valrdy':
      return dict(enq_fire=z3.And(V.I('s.enq.val')==1,V.O('s.enq.rdy')==1),deq_fire=z3.And(V.O('s.deq.val')==1,V.I('s.deq.rdy')==1),
                  enq_rdy=V.O('s.enq.rdy')==1,deq_rdy=V.O('s.deq.val')==1,enq_msg=V.I('s.enq.msg'),deq_msg=V.O('s.deq.msg'),
                  enq_offer=V.I('s.enq.val')==1,deq_offer=V.I('s.deq.rdy')==1)
    if s.flavor=='enqdeq':
      return dict(enq_fire=V.I('s.enq.en')==1,deq_fire=V.I('s.deq.en')==1,enq_rdy=V.O('s.enq.rdy')==1,deq_rdy=V.O('s.deq.rdy')==1,
                  enq_msg=V.I('s.enq.msg'),deq_msg=V.O('s.deq.ret'),enq_offer=V.I('s.enq.en')==1,deq_offer=V.I('s.deq.en')==1)
    return dict(enq_fire=z3.And(V.I('s.recv.val')==1,V.O('s.recv.rdy')==1),deq_fire=z3.And(V.O('s.send.val')==1,V.I('s.send.rdy')==1),
                enq_rdy=V.O('s.recv.rdy')==1,deq_rdy=V.O('s.send.val')==1,enq_msg=V.I('s.recv.msg'),deq_msg=V.O('s.send.msg'),
                enq_offer=V.I('s.recv.val')==1,deq_offer=V.I('s.send.rdy')==1)
  def legal(s,V):
    if s.flavor=='enrdy': return z3.Implies(V.I('s.enq.en')==1,V.O('s.enq.rdy')==1)
    if s.flavor=='enqdeq':
      return z3.And(z3.Implies(V.I('s.enq.en')==1,V.O('s.enq.rdy')==1),z3.Implies(V.I('s.deq.en')==1,V.O('s.deq.rdy')==1))
    return z3.BoolVal(True)
  def clauses(s,V):
    n=V.cfg['num_entries']; io=s.io(V)
    c,ent=s.absn(V,'st'); c2,ent2=s.absn(V,'nxt')
    N=z3.BitVecVal(n,8); full=c==N; empty=c==0
    enq,deq=io['enq_fire'],io['deq_fire']
    cl=[]
    # ---- ready/valid table (statement of C17)
    if s.flavor=='enrdy':
      # push-style dequeue side: the queue sends (deq.en) exactly when the consumer is ready and a message is available
      avail=z3.Not(empty) if s.kind!='bypass' else z3.Or(z3.Not(empty),io['enq_offer'])
      cl.append(('deq-fires-iff-consumer-ready-and-message-available', io['deq_fire']==z3.And(io['deq_offer'],avail)))
      if s.kind=='pipe': cl.append(('enq-ready-iff-not-full-or-dequeue-this-cycle', io['enq_rdy']==z3.Or(z3.Not(full),z3.And(full,io['deq_offer']))))
      else: cl.append(('enq-ready-iff-not-full', io['enq_rdy']==z3.Not(full)))
    elif s.kind=='normal':
      cl.append(('enq-ready-iff-not-full', io['enq_rdy']==z3.Not(full)))
      cl.append(('deq-ready-iff-not-empty', io['deq_rdy']==z3.Not(empty)))
    elif s.kind=='pipe':
      cl.append(('enq-ready-iff-not-full-or-dequeue-this-cycle', io['enq_rdy']==z3.Or(z3.Not(full),z3.And(full,io['deq_offer']))))
      cl.append(('deq-ready-iff-not-empty', io['deq_rdy']==z3.Not(empty)))
    else:
      cl.append(('enq-ready-iff-not-full', io['enq_rdy']==z3.Not(full)))
      cl.append(('deq-ready-iff-not-empty-or-enqueue-this-cycle', io['deq_rdy']==z3.Or(z3.Not(empty),z3.And(empty,io['enq_offer']))))
    # ---- occupancy
    if s.flavor in('enqdeq','stream'): cl.append(('count-output-is-occupancy', zx(V.O('s.count'),8)==c))
    if s.flavor=='valrdy' and s.fixed is None: cl.append(('free-entries-output-is-capacity-minus-occupancy', zx(V.O('s.num_free_entries'),8)==N-c))
    cl.append(('occupancy-never-exceeds-capacity', z3.ULE(c2,N)))
    # ---- delivered message is the oldest accepted one (bypass: the incoming one when empty)
    head_msg = ent[0] if s.kind!='bypass' else z3.If(empty,io['enq_msg'],ent[0])
    cl.append(('dequeued-message-is-the-oldest', z3.Implies(deq, io['deq_msg']==head_msg)))
    # ---- sequence evolution: seq' == (seq ++ [msg] if enq)[1:] if deq   (none lost, duplicated, invented; order kept)
    one=z3.BitVecVal(1,8)
    exp_c = c + z3.If(enq,one,z3.BitVecVal(0,8)) - z3.If(deq,one,z3.BitVecVal(0,8))
    cl.append(('count-evolves-by-enq-minus-deq', c2==exp_c))
    ext=ent+[io['enq_msg']]      # seq ++ [msg] (positions >= count hold msg when enq; only positions < count' are compared)
    conj=[]
    for i in range(n):
      # element i of the new sequence = element i+deq of (seq ++ [msg])
      def pick(j):
        # (seq ++ [msg])[j]: seq[j] if j < count else msg
        if j>=n: return io['enq_msg']
        return z3.If(z3.ULT(z3.BitVecVal(j,8),c),ent[j],io['enq_msg'])
      expected=z3.If(deq,pick(i+1),pick(i))
      conj.append(z3.Implies(z3.ULT(z3.BitVecVal(i,8),c2), ent2[i]==expected))
    cl.append(('sequence-is-old-sequence-plus-enqueued-minus-dequeued', z3.And(*conj)))
    return cl
  def covers(s,V):
    io=s.io(V); c,_=s.absn(V,'st'); n=V.cfg['num_entries']
    cv=[('enqueue-happens',io['enq_fire']),('dequeue-happens',io['deq_fire']),('queue-full',c==n),('queue-empty',c==0)]
    if n>1 or s.kind!='normal': cv.append(('enqueue-and-dequeue-in-one-cycle',z3.And(io['enq_fire'],io['deq_fire'])))
    return cv
  def reset_clauses(s,V):
    if s.flavor=='enrdy' and s.cls in('NormalQueue1RTL','PipeQueue1RTL'): return []     # their `full` register is a Reg without reset logic (C17 says nothing about reset)
    c2,_=s.absn(V,'nxt')
    return [('reset-empties-the-queue', c2==0)]

def mk(kind,flavor,cls,mod,fixed=None):
  sp=QueueSpec(); sp.kind=kind; sp.flavor=flavor; sp.cls=cls; sp.mod=mod; sp.fixed=fixed
  sp.key=f"{mod.replace('.','/')}.py::{cls}"
  return sp

SPECS=[mk('normal','enqdeq','NormalQueueRTL','pymtl3.stdlib.queues.queues'),
       mk('pipe','enqdeq','PipeQueueRTL','pymtl3.stdlib.queues.queues'),
       mk('bypass','enqdeq','BypassQueueRTL','pymtl3.stdlib.queues.queues'),
       mk('normal','stream','NormalQueueRTL','pymtl3.stdlib.stream.queues'),
       mk('pipe','stream','PipeQueueRTL','pymtl3.stdlib.stream.queues'),
       mk('bypass','stream','BypassQueueRTL','pymtl3.stdlib.stream.queues'),
       # enable/ready (push) queues
       mk('normal','enrdy','NormalQueue1RTL','pymtl3.stdlib.queues.enrdy_queues',1),
       mk('pipe','enrdy','PipeQueue1RTL','pymtl3.stdlib.queues.enrdy_queues',1),
       mk('bypass','enrdy','BypassQueue1RTL','pymtl3.stdlib.queues.enrdy_queues',1),
       mk('bypass','enrdy','BypassQueue2RTL','pymtl3.stdlib.queues.enrdy_queues',2),
       ]
# pymtl3/stdlib/queues/valrdy_queues.py cannot be imported on this tree (it imports InValRdyIfc / OutValRdyIfc, which pymtl3.stdlib.ifcs
# no longer defines), so its queues cannot be instantiated and are not library queues anyone can use; the 'valrdy' flavour above is kept
# for the day the module is repaired:
VALRDY_SPECS=[mk('normal','valrdy','NormalQueue1RTL','pymtl3.stdlib.queues.valrdy_queues',1),
       mk('pipe','valrdy','PipeQueue1RTL','pymtl3.stdlib.queues.valrdy_queues',1),
       mk('bypass','valrdy','BypassQueue1RTL','pymtl3.stdlib.queues.valrdy_queues',1),
       mk('normal','valrdy','NormalQueueRTL','pymtl3.stdlib.queues.valrdy_queues')]
