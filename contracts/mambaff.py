"""C07/C01: Mamba2020Pass.schedule_ff (packing of the update_ff blocks into compiled 'meta blocks') under contract: every update_ff
block is part of exactly one meta block handed to compile_meta_block, whatever the branchiness values and thresholds.

The lists ffs / cur_meta are abstracted by their element sets (appends carry duplicate-freeness obligations), `schedule` (compiled
functions, opaque) is a bag; the ghost set g_cov collects the blocks of the meta blocks compiled so far - every compile site carries the
obligation that its meta block is disjoint from g_cov."""
import z3
from pyvc.contracts import Contract, Case, Loop
from pyvc.symexec import IntT, register_spec_fun
from pyvc.values import I, B
from pyvc.symcoll import ObjK, SetOf, DictOf, CompT, SetV, EMPTY, setval, PairOf

F='pymtl3/passes/mamba/Mamba2020Pass.py'
Blk=ObjK('Blk')
register_spec_fun('gcov',lambda ex,a,st: st.env['g_cov'],lambda: set())
def ghost_init(ex,st): st.env['g_cov']=SetV(EMPTY,Blk)
def h_compile(ex,st):
  cm=st.heap[(st.env['cur_meta'].id,'arr')]; cov=st.env['g_cov'].arr
  st.vcs.append(('ghost',f"meta-block-disjoint@{ex.cur_line}",list(st.pc),z3.SetIntersect(cov,cm)==EMPTY,st))
  st.env['g_cov']=SetV(z3.SetUnion(cov,cm),Blk)

FF="top.get_all_update_ff()"
BROF=lambda b: f"(0 if getv(self.only_loop_at_top, {b}) != 0 else getv(self.branchiness, {b}))"
WF="forall(p, implies(p in elems(ffs), is_keyed_pair(p) and pfst(p) == "+BROF('psnd(p)')+"))"

def contracts():
  SelfT=CompT('Mamba2020Pass',{'only_loop_at_top':DictOf(Blk,IntT()),'branchiness':DictOf(Blk,IntT())})
  TopT=CompT('Component',{'get_all_update_ff()':SetOf(Blk),'_sched.present':IntT()})
  return [Contract(f'{F}::Mamba2020Pass.schedule_ff', view={'self':SelfT,'top':TopT},
    cases=[Case('any', requires=f"subset({FF}, dom(self.only_loop_at_top)) and subset({FF}, dom(self.branchiness))",
      ensures=f"gcov() == {FF}",
      source="C07: 'at the tick's edge all registers change together' / C01: every update_ff block is executed by every pass group: the meta blocks compiled for the flip-flop schedule "
             "contain every update_ff block, and (obligations at the compile sites) no block twice")],
    loops={f'for x in {FF}':Loop(invariant=[WF,"forall(p, implies(p in elems(ffs), psnd(p) in seen))",f"forall(b, implies(b in seen, ({BROF('b')}, b) in elems(ffs)))"], modifies=['ffs']),
           'in enumerate(ffs)':Loop(invariant=["disjoint(gcov(), elems(cur_meta))",
               "forall(p, implies(p in seen, psnd(p) in gcov() or psnd(p) in elems(cur_meta)))",
               f"forall(b, implies(b in gcov() or b in elems(cur_meta), ({BROF('b')}, b) in seen))"], modifies=['schedule'], ghost=['g_cov'])},
    ghost_init=ghost_init, ghost_hooks={'schedule.append(self.compile_meta_block(cur_meta))':h_compile},
    abstract_lists={'ffs':'set','cur_meta':'set','schedule':'bag'}, list_elems={'ffs':PairOf(IntT(),Blk),'cur_meta':Blk}, opaque_methods={'compile_meta_block':ObjK('fn')},
    modifies=['top._sched.schedule_ff'], returns=None, property_ids=('C07','C01'), sample=False,
    note="compile_meta_block is opaque (its result is a function that runs the given blocks - the generated text is outside this contract); sorted() only reorders; "
         "the thresholds (branchiness_factor, branchy_block_factor) do not matter for the claim")]

def register(reg):
  reg.declare_class('Mamba2020Pass',F)
  for c in contracts(): reg.add(c)
