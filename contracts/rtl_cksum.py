"""C20 (checksum half): examples/ex02_cksum/ChecksumRTL.py via rtlvc against the Fletcher specification of the statement."""
import sys, z3
from rtlvc.check import Spec

def fletcher_bv(words):
  """spec: sum1 = (sum1 + w) mod 2^16 ; sum2 = (sum2 + sum1) mod 2^16 over the 8 words; result = sum2 . sum1 (32 bits)."""
  s1=z3.BitVecVal(0,16); s2=z3.BitVecVal(0,16)
  for w in words:
    s1=s1+w; s2=s2+s1
  return z3.Concat(s2,s1)

class CksumRTL(Spec):
  key='examples/ex02_cksum/ChecksumRTL.py::ChecksumRTL'
  prop_ids=('C20',)
  def configs(s,tier): return [dict()]
  def bmc_depth(s,cfg): return 4
  def build(s,cfg):
    repo=[p for p in sys.path if p.endswith('/repo') or '/tmp/' in p or p.startswith('/repo')]
    from examples.ex02_cksum.ChecksumRTL import ChecksumRTL
    return ChecksumRTL()
  def legal(s,V):
    return z3.Implies(V.I('s.recv.en')==1, V.O('s.recv.rdy')==1)
  def covers(s,V):
    return [('a-checksum-is-sent',V.O('s.send.en')==1),('a-message-is-accepted',V.I('s.recv.en')==1)]
  def clauses(s,V):
    entry=V.S('s.in_q.q.entry'); full=V.S('s.in_q.q.full')
    words=[z3.Extract(16*i+15,16*i,entry) for i in range(8)]
    cl=[('sent-message-is-the-fletcher-checksum-of-the-buffered-input', z3.Implies(V.O('s.send.en')==1, V.O('s.send.msg')==fletcher_bv(words))),
        ('sends-exactly-when-a-message-is-buffered-and-the-receiver-is-ready', (V.O('s.send.en')==1)==z3.And(full==1,V.I('s.send.rdy')==1)),
        ('accepted-input-is-buffered-unchanged', z3.Implies(V.I('s.recv.en')==1, z3.And(V.N('s.in_q.q.entry')==V.I('s.recv.msg'), V.N('s.in_q.q.full')==1))),
        ('buffer-holds-until-sent', z3.Implies(z3.And(V.I('s.recv.en')==0, full==1, V.O('s.send.en')==0), z3.And(V.N('s.in_q.q.entry')==entry, V.N('s.in_q.q.full')==1))),
        ('buffer-empties-after-send-without-new-input', z3.Implies(z3.And(V.I('s.recv.en')==0, V.O('s.send.en')==1), V.N('s.in_q.q.full')==0)),
        ('ready-for-input-iff-empty-or-sending', (V.O('s.recv.rdy')==1)==z3.Or(full==0, V.O('s.send.en')==1))]
    return cl
  def reset_clauses(s,V): return [('reset-empties-the-buffer',V.N('s.in_q.q.full')==0)]

SPECS=[CksumRTL()]
