"""C09: ComponentLevel3._check_port_in_nets (direction rules for connections, by the hierarchical position of driver and driven signal) under
contract.  For every net the function walks the connection graph from the net's writer; every signal it discovers is checked against the
signal it was discovered from.  Proved: on normal return, for every net (W, _): the set reached from W is closed under adjacency, and every
reached signal other than W has a ghost parent in that set, adjacent to it, such that the pair (parent = driver, child = driven) obeys the
direction rule for their host components (same host / driven host is the parent / driver host is the parent / siblings; anything farther
apart is rejected).  Objects, classes, hosts and parents are abstract (pure functions / predicates), as in contracts/portrules.py."""
import z3
from pyvc.contracts import Contract, Case, Loop
from pyvc.symexec import register_spec_fun
from pyvc.values import Val, Opq
from pyvc.symcoll import ObjK, PairOf, SetOf, DictOf, CompT, Obj, SetSort, EMPTY, SetV, to_obj, declare_pure_method
from . import portrules

F='pymtl3/dsl/ComponentLevel3.py'
Sig=ObjK('Sig')
declare_pure_method('get_host_component',1,'obj'); declare_pure_method('is_signal_cls',1,'bool'); declare_pure_method('is_const',1,'bool')
class GArr(Val):
  def __init__(s,arr): s.arr=arr
register_spec_fun('gvis',lambda ex,a,st: SetV(z3.Select(st.env['g_vis'].arr,to_obj(a[0],st)),Sig),lambda w: set())
register_spec_fun('gpar2',lambda ex,a,st: Opq(z3.Select(st.env['g_par2'].arr,Obj.pair(to_obj(a[0],st),to_obj(a[1],st))),'obj'),lambda w,v: None)
register_spec_fun('pfo',lambda ex,a,st: Opq(Obj.fst(to_obj(a[0],st)),'obj'),lambda p: p[0])

def ghost_init(ex,st):
  portrules.ghost_init(ex,st)
  st.env['g_vis']=GArr(z3.K(Obj,EMPTY)); st.env['g_par2']=GArr(z3.K(Obj,Obj.none))
def h_new(ex,st):
  w=to_obj(st.env['writer'],st); st.env['g_vis']=GArr(z3.Store(st.env['g_vis'].arr,w,st.heap[(st.env['visited'].id,'arr')]))
def h_add(ex,st):
  w=to_obj(st.env['writer'],st); v=to_obj(st.env['v'],st); u=to_obj(st.env['u'],st)
  st.env['g_vis']=GArr(z3.Store(st.env['g_vis'].arr,w,st.heap[(st.env['visited'].id,'arr')]))
  st.env['g_par2']=GArr(z3.Store(st.env['g_par2'].arr,Obj.pair(w,v),u))

ADJ='s._dsl.all_adjacency'
H=lambda x: f"get_host_component({x})"; P=lambda x: f"get_parent_object({x})"
def RULE(u,v):
  hu,hv=H(u),H(v); drv=f"(is_signal_cls({u}) or is_const({u}))"
  return (f"(implies({hu} == {hv} and not (is_outport({u}) and is_inport({v})), {drv} and (is_outport({v}) or is_wire({v}))) and "
          f"implies({hu} != {hv} and {hv} == {P(hu)}, is_outport({u}) and (is_outport({v}) or is_wire({v}))) and "
          f"implies({hu} != {hv} and {hv} != {P(hu)} and {hu} == {P(hv)}, {drv} and is_inport({v})) and "
          f"implies({hu} != {hv} and {hv} != {P(hu)} and {hu} != {P(hv)} and {P(hu)} == {P(hv)}, is_outport({u}) and is_inport({v})) and "
          f"({hu} == {hv} or {hv} == {P(hu)} or {hu} == {P(hv)} or {P(hu)} == {P(hv)}))")
def DONE(W,cond):
  return [f"forall(p, implies({cond}, {W} in gvis({W})))",
          f"forall(p, x, y, implies({cond} and x in gvis({W}) and y in at({ADJ}, x), y in gvis({W})))",
          f"forall(p, y, implies({cond} and y in gvis({W}) and y != {W}, gpar2({W}, y) in gvis({W}) and y in at({ADJ}, gpar2({W}, y)) and {RULE(f'gpar2({W}, y)','y')}))"]
CUR=["gvis(writer) == visited and writer in visited and subset(elems(S), visited) and subset(visited, dom("+ADJ+"))",
     f"forall(y, implies(y in visited and y != writer, gpar2(writer, y) in visited and y in at({ADJ}, gpar2(writer, y)) and {RULE('gpar2(writer, y)','y')}))"]
PRE=(f"forall(x, y, implies(x in dom({ADJ}) and y in at({ADJ}, x), y in dom({ADJ}))) and "
     f"forall(p, implies(p in s._dsl.all_value_nets, pfo(p) == none_obj() or pfo(p) in dom({ADJ}))) and "
     "forall(p, q, implies(p in s._dsl.all_value_nets and q in s._dsl.all_value_nets and pfo(p) == pfo(q), p == q))")
register_spec_fun('none_obj',lambda ex,a,st: Opq(Obj.none,'obj'),lambda: None)

def contracts():
  TopT=CompT('Component',{'_dsl.all_value_nets':SetOf(PairOf(ObjK('Sig',maybe_none=True),ObjK('net'))),'_dsl.all_adjacency':DictOf(Sig,SetOf(Sig))})
  SEEN=lambda: "p in seen"
  return [Contract(f'{F}::ComponentLevel3._check_port_in_nets', view={'s':TopT},
    cases=[Case('any', requires=PRE, raises_or_ensures=True, raises='Exception',
      ensures=' and '.join(DONE('pfo(p)','p in s._dsl.all_value_nets')),
      source="C09: 'a signal is ... driven from a hierarchical position the port rules forbid ... fails elaboration with the corresponding error': on normal return, in every net, the signals reached from the "
             "writer are closed under adjacency and each was reached over an edge whose driver / driven port kinds are legal for the relative position of their host components; hosts farther apart are rejected")],
    loops={'in nets':Loop(invariant=DONE('pfo(p)','p in seen'), modifies=[], ghost=['g_vis','g_par2']),
           'while S':Loop(invariant=DONE('pfo(p)','p in seen')+CUR+[f"forall(x, y, implies(x in visited and y in at({ADJ}, x), y in visited or x in elems(S)))"], modifies=['S','visited'], ghost=['g_vis','g_par2']),
           f'in {ADJ}[u]':Loop(invariant=DONE('pfo(p)','p in seen_outer')+CUR+[f"forall(x, y, implies(x in visited and y in at({ADJ}, x), y in visited or x in elems(S) or (x == u and not (y in seen))))",
                                 "u in visited and whost == get_host_component(u)"], modifies=['S','visited'], ghost=['g_vis','g_par2'])},
    ghost_init=ghost_init, ghost_hooks={'visited = {writer}':h_new,'visited.add(v)':h_add}, abstract_lists={'S':'bag'},
    pure_methods={'get_host_component':1,'get_parent_object':1}, opaque_attrs=True,
    class_predicates={'Signal':'is_signal_cls','Const':'is_const','OutPort':'is_outport','InPort':'is_inport','Wire':'is_wire'},
    modifies=[], returns=None, property_ids=('C09',), sample=False,
    note="hosts, parents and classes of DSL objects are pure functions / predicates; the adjacency containers of individual components consulted for the parent-level loopback exception are opaque pure relations; "
         "the list of nets is the set of its (writer, members) pairs with pairwise different writers; any exception class may leave (NoWriterError, SignalTypeError, InvalidConnectionError, the internal assertions)")]

def register(reg):
  for e in ('NoWriterError','SignalTypeError','InvalidConnectionError'): reg.declare_class(e,None,bases=('Exception',),exception=True)
  for c in contracts(): reg.add(c)
