"""Sidecar contracts for pymtl3/datatypes/PythonBits.py  (properties C04, C05, C07).

Top-level postconditions are transcribed from the statements of C04/C05 (see `source`);
shapes / frames / helper preconditions are derived from the code and its call sites.
"""
from pyvc.contracts import Contract, Case
from pyvc.symexec import IntT, BoolT, NoneT, OtherT, ObjT, SliceT, OneOf, define_macro
from pyvc.values import Table, I, Fn
import z3

F='pymtl3/datatypes/PythonBits.py'
BitsT   = ObjT('Bits',['_nbits','_uint'])
BitsNxt = ObjT('Bits',['_nbits','_uint','_next'])

define_macro('valid(b)',  '1 <= b._nbits and b._nbits <= 1023 and 0 <= b._uint and b._uint < pow2(b._nbits)')
define_macro('fits_u(v,n)', '0 <= v and v <= pow2(n)-1')                       # "integers that fit the width" for operators
# (x * 2^k) mod 2^n, written so that it can be evaluated natively for astronomically large k: for k >= n the value is 0
# (spec-level lemma 'shl-mod', discharged in contracts/bits_reg.py:lemmas)
define_macro('shl_spec(x,k,n)', 'modp(shl(x, k), n) if k < n else 0')
define_macro('shr_spec(x,k,n)', 'divp(x, k) if k < n else 0')
define_macro('fits_s(v,n)', '-pow2(n-1) <= v and v <= pow2(n)-1')              # "construction and assignment accept exactly -2^(n-1) .. 2^n-1"

def _upper_spec(ex,i,st): return I(st.th.pow2(i)-1)
def _lower_spec(ex,i,st): return I(z3.If(i==0,z3.IntVal(0),-st.th.pow2(i-1)))

def module_globals(reg,mod):
  return {'_upper':Table('_upper',1024,_upper_spec), '_lower':Table('_lower',1024,_lower_spec), 'object_new':Fn('object.__new__')}

TABLES={'_upper':(1024,lambda i: 2**i-1), '_lower':(1024,lambda i: 0 if i==0 else -2**(i-1))}

C04S="C04: 'returns exactly the mathematically defined unsigned result reduced modulo 2^n ... with the documented result width, and a stored value always lies in [0, 2^n)'"
C04E="C04: 'Operands of different widths, or integers that do not fit the width, raise an error instead of being silently truncated'"

def binop(name, spec_bits, spec_int, zero_div=False, shift=False, width1=False, props=('C04',)):
  """contract family of a binary operator method. spec_*: expression for result._uint."""
  nb = '1' if width1 else 'self._nbits'
  post = lambda sp: f"valid(result) and result._nbits == {nb} and result._uint == {sp} and fresh(result)"
  nz_b = ' and other._uint != 0' if zero_div else ''
  nz_i = ' and other != 0' if zero_div else ''
  cases=[
    Case('bits/same-width', when={'other':'Bits'}, requires='valid(self) and valid(other) and other._nbits == self._nbits'+nz_b,
         ensures=post(spec_bits), source=C04S),
    Case('bits/width-mismatch', when={'other':'Bits'}, requires='valid(self) and valid(other) and other._nbits != self._nbits',
         raises='Exception', raises_today='ValueError', raises_or_ensures=False, source=C04E),
    Case('int/in-range', when={'other':'int'}, requires='valid(self) and fits_u(other, self._nbits)'+nz_i,
         ensures=post(spec_int), source=C04S),
    Case('int/out-of-range', when={'other':'int'}, requires='valid(self) and not fits_u(other, self._nbits)',
         raises='Exception', raises_today='ValueError', source=C04E),
  ]
  if zero_div:
    cases+=[Case('bits/zero-divisor', when={'other':'Bits'}, requires='valid(self) and valid(other) and other._nbits == self._nbits and other._uint == 0',
                 raises='Exception', raises_today='ZeroDivisionError', source="C04: division by zero has no mathematically defined result; no value may be returned"),
            Case('int/zero-divisor', when={'other':'int'}, requires='valid(self) and other == 0',
                 raises='Exception', raises_today='ZeroDivisionError', source="C04: division by zero has no mathematically defined result")]
  return Contract(f'{F}::Bits.{name}', view={'self':BitsT,'other':OneOf(BitsT,IntT())}, cases=cases, modifies=[],
                  returns=BitsT, property_ids=props, source_of_post=C04S)

def rop(name, spec_int, zero_div=False):
  nz=' and self._uint != 0' if zero_div else ''
  cases=[Case('int/in-range', requires='valid(self) and fits_u(other, self._nbits)'+nz,
              ensures=f"valid(result) and result._nbits == self._nbits and result._uint == {spec_int} and fresh(result)", source=C04S),
         Case('int/out-of-range', requires='valid(self) and not fits_u(other, self._nbits)', raises='Exception', raises_today='ValueError', source=C04E)]
  if zero_div:
    cases.append(Case('int/zero-divisor', requires='valid(self) and fits_u(other, self._nbits) and self._uint == 0', raises='Exception', raises_today='ZeroDivisionError'))
  return Contract(f'{F}::Bits.{name}', view={'self':BitsT,'other':IntT()}, cases=cases, modifies=[], returns=BitsT, property_ids=('C04',), source_of_post=C04S)

def cmpop(name, rel):
  c=binop(name, f'b2i(self._uint {rel} other._uint)', f'b2i(self._uint {rel} other)', width1=True)
  return c

def contracts():
  cs=[]
  add=cs.append
  add(Contract(f'{F}::_new_valid_bits', view={'nbits':IntT(),'uint':OneOf(IntT(),BoolT())},
      cases=[Case('any', ensures='result._nbits == nbits and result._uint == b2i(uint) and fresh(result) and not isset(result._next)')],
      returns=BitsT, property_ids=('C04','C05'), source_of_post='helper: derived from the code (bypass constructor)'))
  add(Contract(f'{F}::Bits.nbits', view={'self':BitsT}, cases=[Case('any', ensures='result == self._nbits')], returns=IntT(), property_ids=('C04',)))
  add(Contract(f'{F}::Bits.to_bits', view={'self':BitsT}, cases=[Case('any', ensures='same(result,self)')], returns='self', property_ids=('C04',)))
  M='self._nbits'
  add(binop('__add__', f'modp(self._uint + other._uint, {M})', f'modp(self._uint + other, {M})'))
  add(binop('__sub__', f'modp(self._uint - other._uint, {M})', f'modp(self._uint - other, {M})'))
  add(binop('__mul__', f'modp(self._uint * other._uint, {M})', f'modp(self._uint * other, {M})'))
  add(binop('__and__', 'band(self._uint, other._uint)', 'band(self._uint, other)'))
  add(binop('__or__',  'bor(self._uint, other._uint)',  'bor(self._uint, other)'))
  add(binop('__xor__', 'bxor(self._uint, other._uint)', 'bxor(self._uint, other)'))
  add(binop('__floordiv__', 'self._uint // other._uint', 'self._uint // other', zero_div=True))
  add(binop('__mod__', 'self._uint % other._uint', 'self._uint % other', zero_div=True))
  add(rop('__radd__', f'modp(other + self._uint, {M})'))
  add(rop('__rsub__', f'modp(other - self._uint, {M})'))
  add(rop('__rmul__', f'modp(other * self._uint, {M})'))
  add(rop('__rand__', 'band(other, self._uint)'))
  add(rop('__ror__',  'bor(other, self._uint)'))
  add(rop('__rxor__', 'bxor(other, self._uint)'))
  add(rop('__rfloordiv__', 'other // self._uint', zero_div=True))
  add(rop('__rmod__', 'other % self._uint', zero_div=True))
  for nm,rel in (('__lt__','<'),('__le__','<='),('__gt__','>'),('__ge__','>=')): add(cmpop(nm,rel))
  return cs

# remaining methods (eq/ne, shifts, invert, ctor, assignment ops, conversions, slices) are appended below
def contracts2():
  cs=[]; add=cs.append
  M='self._nbits'
  # ---- == and != : additionally total on non-int objects
  for nm,rel,other in (('__eq__','==','0'),('__ne__','!=','1')):
    c=cmpop(nm,rel)
    c.view={'self':BitsT,'other':OneOf(BitsT,IntT(),OtherT(),NoneT())}
    c.cases.append(Case('non-int', when={'other':('other','none')}, requires='valid(self)',
                        ensures=f'valid(result) and result._nbits == 1 and result._uint == {other} and fresh(result)',
                        source="code-derived: comparison with an object that is neither Bits nor int is 'not equal'"))
    add(c)
  # ---- shifts: "a shift amount of another width may instead be accepted with the documented left-operand-width result"
  for nm,sb,si in (('__lshift__',f'shl_spec(self._uint, other._uint, {M})',f'shl_spec(self._uint, other, {M})'),
                   ('__rshift__',f'shr_spec(self._uint, other._uint, {M})',f'shr_spec(self._uint, other, {M})')):
    c=binop(nm,sb,si)
    mm=c.cases[1]; mm.raises_or_ensures=True
    mm.ensures=f"valid(result) and result._nbits == self._nbits and result._uint == {sb} and fresh(result)"
    add(c)
  add(Contract(f'{F}::Bits.__invert__', view={'self':BitsT},
      cases=[Case('any', requires='valid(self)', ensures=f'valid(result) and result._nbits == {M} and result._uint == pow2({M}) - 1 - self._uint and fresh(result)', source=C04S)],
      modifies=[], returns=BitsT, property_ids=('C04',)))
  # ---- conversions
  add(Contract(f'{F}::Bits.__bool__', view={'self':BitsT}, cases=[Case('any', requires='valid(self)', ensures='result == (self._uint != 0)')], modifies=[], returns=BoolT(), property_ids=('C04',)))
  for nm in ('__int__','uint','__index__'):
    add(Contract(f'{F}::Bits.{nm}', view={'self':BitsT}, cases=[Case('any', requires='valid(self)', ensures='result == self._uint', source="C04: uint() is the stored value")], modifies=[], returns=IntT(), property_ids=('C04',)))
  add(Contract(f'{F}::Bits.int', view={'self':BitsT},
      cases=[Case('any', requires='valid(self)', ensures=f'result == (self._uint - pow2({M}) if self._uint >= pow2({M}-1) else self._uint)', source="C04: int() is the two's-complement value")],
      modifies=[], returns=IntT(), property_ids=('C04','C05')))
  add(Contract(f'{F}::Bits.__hash__', view={'self':BitsT}, cases=[Case('any', requires='valid(self)', ensures='result == hash_of(self._nbits, self._uint)', source="C04: hash is a function of (width, value) only")], modifies=[], returns=IntT(), property_ids=('C04',)))
  add(Contract(f'{F}::Bits.clone', view={'self':BitsT}, cases=[Case('any', requires='valid(self)', ensures='valid(result) and result._nbits == self._nbits and result._uint == self._uint and fresh(result)')], modifies=[], returns=BitsT, property_ids=('C04','C11')))
  add(Contract(f'{F}::Bits.__deepcopy__', view={'self':BitsT,'memo':NoneT()}, cases=[Case('any', requires='valid(self)', ensures='valid(result) and result._nbits == self._nbits and result._uint == self._uint and fresh(result)')], modifies=[], returns=BitsT, property_ids=('C04',)))
  # ---- constructor: accepts exactly -2^(n-1) .. 2^n-1
  ctor_src="C04: 'construction and assignment accept exactly -2^(n-1) .. 2^n-1'"
  add(Contract(f'{F}::Bits.__init__', view={'self':ObjT('Bits',[]),'nbits':IntT(),'v':OneOf(IntT(),BitsT),'trunc_int':BoolT()},
      cases=[Case('int/accept', when={'v':'int'}, requires='1 <= nbits and nbits <= 1023 and fits_s(v, nbits) and not trunc_int',
                  ensures='self._nbits == nbits and self._uint == modp(v, nbits) and valid(self)', modifies=['self._nbits','self._uint'], source=ctor_src),
             Case('int/reject', when={'v':'int'}, requires='1 <= nbits and nbits <= 1023 and not fits_s(v, nbits) and not trunc_int', raises='Exception', raises_today='ValueError', source=ctor_src,
                  modifies=['self._nbits','self._uint']),   # a constructor that raises leaves an unobservable, partially initialised object
             Case('int/trunc', when={'v':'int'}, requires='1 <= nbits and nbits <= 1023 and trunc_int',
                  ensures='self._nbits == nbits and self._uint == modp(v, nbits) and valid(self)', modifies=['self._nbits','self._uint'], source="code-derived: explicit trunc_int=True truncates"),
             Case('bits/same-width', when={'v':'Bits'}, requires='1 <= nbits and nbits <= 1023 and valid(v) and v._nbits == nbits',
                  ensures='self._nbits == nbits and self._uint == v._uint and valid(self)', modifies=['self._nbits','self._uint'], source=ctor_src),
             Case('bits/width-mismatch', when={'v':'Bits'}, requires='1 <= nbits and nbits <= 1023 and valid(v) and v._nbits != nbits', raises='Exception', raises_today='ValueError', source=C04E, modifies=['self._nbits','self._uint']),
             Case('bad-width', requires='nbits < 1 or nbits > 1023', raises='Exception', raises_today='ValueError', source="C04: widths are 1..1023"),
            ], modifies=[], returns=None, property_ids=('C04',), source_of_post=ctor_src))
  # ---- @= and <<=
  for nm,fld,other_fld in (('__imatmul__','_uint','_next'),('__ilshift__','_next','_uint')):
    src="C04: 'construction and assignment accept exactly -2^(n-1) .. 2^n-1'; C07: '<<= is invisible until the edge' (only _next is written)"
    add(Contract(f'{F}::Bits.{nm}', view={'self':OneOf(BitsT,BitsNxt),'v':OneOf(IntT(),BitsT)},
      cases=[Case('int/accept', when={'v':'int'}, requires=f'valid(self) and fits_s(v, {M})',
                  ensures=f'same(result,self) and self.{fld} == modp(v, {M})', modifies=[f'self.{fld}'], source=src),
             Case('int/reject', when={'v':'int'}, requires=f'valid(self) and not fits_s(v, {M})', raises='Exception', raises_today='ValueError', source=src),
             Case('bits/same-width', when={'v':'Bits'}, requires=f'valid(self) and valid(v) and v._nbits == {M}',
                  ensures=f'same(result,self) and self.{fld} == v._uint', modifies=[f'self.{fld}'], source=src),
             Case('bits/width-mismatch', when={'v':'Bits'}, requires=f'valid(self) and valid(v) and v._nbits != {M}', raises='Exception', raises_today='ValueError', source=C04E)],
      modifies=[], returns='self', property_ids=('C04','C07'), source_of_post=src))
  add(Contract(f'{F}::Bits._flip', view={'self':BitsNxt}, cases=[Case('any', ensures='self._uint == old(self._next)', modifies=['self._uint'], source="C07: at the edge the committed value is the last value assigned with <<=")],
      modifies=[], returns=None, property_ids=('C07',)))
  return cs
