"""Sidecar: contracts on the real functions of /repo, keyed by file::qualname.  Nothing here edits /repo."""
MODULES=['bits_reg','dsl']

def rtl_specs():
  from . import rtl_arb, rtl_queues, rtl_cksum
  return list(rtl_arb.SPECS)+list(rtl_queues.SPECS)+list(rtl_cksum.SPECS)
def rtl_spec(key):
  for sp in rtl_specs():
    if sp.key==key: return sp
  raise KeyError(key)
def rtl_extra(prop,tier,seed,repo,reg,known):
  from .rtl_run import run_specs
  return run_specs([sp for sp in rtl_specs() if prop in sp.prop_ids],tier,repo)


FIX_COMMITS=['052e08e','9c79cb1','dce12fb','1afafb3','61a0063']

PROPERTIES={
 'C04': dict(level='proof',
   claim="Proof, for every width 1..1023 and all operand values (symbolic, unbounded), that each Bits operator/constructor/assignment/conversion method of PythonBits.py meets a contract transcribed from the statement (exact result mod 2^n, result width, stored value in [0,2^n), error cases, frame). 421 obligations, all discharged from the current source on every run; a failed obligation is replayed natively.",
   note="Trusted: the pyvc VC generator, z3/cvc5, the lemma schemas about pow2/&/|/^ (ground instances; cross-checked natively each run), CPython int semantics. The generated BitsN subclasses of bits_import.py are not under contract (they only forward to Bits.__init__).",
   explanation="every method of PythonBits.Bits is symbolically executed from /repo's source against a contract transcribed from the property statement; width n and operands are symbolic (unbounded)",
   extra=['contracts.bits_reg:extra_checks'],
   trusted_base=["module-level tables _upper/_lower: verified by complete concrete execution of the defining loop against 2^i-1 / -2^(i-1) (1024 entries each)"],
   assumptions=["the pypy 'mamba' Bits implementation is not in use (bits_import falls back to PythonBits on CPython)",
                "operands are Bits instances or int/bool; floats and arbitrary objects with __int__ are outside the statement"]),
 'C05': dict(level='proof',
   claim="Proof, for every width, value, index and slice bound (symbolic, valid and invalid, int or Bits bounds), that Bits.__getitem__/__setitem__ read/replace exactly bits lo..hi-1 (closed form: old - field*2^lo + new*2^lo, nbits unchanged, value stays in range) or raise IndexError / an error as the statement demands, and that concat (arity<=5), trunc, zext, sext, reduce_and/or/xor meet their bit-level definitions. clog2 uses floating point and is checked by a bounded stand-in (labelled bounded, not counted as proved).",
   note="Trusted: as C04, plus the unfolding axiom of the spec function parity (its definition) used in reduce_xor's loop invariant. concat is proved per arity 0..5 (loop unrolled), values/widths symbolic. clog2: bounded stand-in over N<=2^16 and 2^k+d (k<=1100,|d|<=2).",
   extra=['contracts.bits_reg:extra_checks_c05'],
   assumptions=["slice bounds are None, int or Bits; the slice step is None or int"]),
 'C19': dict(level='proof', engine='rtlvc',
   claim="Proof per configuration (nreqs 2..8 quick, 2..16 thorough; unbounded in request/enable histories and values): with the invariant 'priority register is one-hot', every cycle of RoundRobinArbiter and RoundRobinArbiterEn satisfies: grants is zero or one-hot, inside reqs, non-zero iff reqs non-zero, equal to the first requester at or cyclically after the pointer; the pointer becomes rotl(grants) exactly when a grant happens (and en is high for the enabled variant), otherwise holds; reset restores pointer 1; a fairness ranking (distance from the pointer) strictly decreases for every passed-over requester. Also: re-running any block after evaluation changes nothing.",
   note="The update-block ASTs of the real classes are executed symbolically over bit-vectors in the real schedule order (GenDAGPass + DynamicSchedulePass run for real); operator semantics = postconditions of the Bits contracts (C04/C05) via the transfer table of rtlvc/bvsem.py (self-checked by z3 for small widths). Trusted: AstHelper's read/write extraction used by the scheduler, the tick composition (C01/C07), rtlvc itself. nreqs is enumerated, not symbolic.",
   extra=['contracts:rtl_extra'], require_cover=False,
   assumptions=["structure parameter nreqs enumerated 2..8 (quick) / 2..16 (thorough); a proof for symbolic nreqs would need a parametric netlist = a hand-written model (refused)"]),
 'C17': dict(level='proof', engine='rtlvc',
   claim="Proof per configuration (capacity 1..4 quick / 1..8 thorough, entry width 1 and 8 with symbolic contents; unbounded in histories): the six RTL queue classes of stdlib/queues/queues.py and stdlib/stream/queues.py refine a FIFO: with the abstraction seq = [regs[(head+i) mod n] : i < count] and the invariant count<=n, head,tail<n, tail=(head+count) mod n, every protocol-legal cycle gives the rdy/val table of the statement for the queue kind, the dequeued message is the oldest accepted one (bypass: the incoming one when empty), count is the occupancy, and seq' = (seq ++ [msg] if enq)[1:] if deq. Violations are reported as traces from reset replayed on the real simulator.",
   note="Not covered: cycle-level queues (cl_queues.py: method scheduling is outside rtlvc), enrdy_queues.py, valrdy_queues.py (the latter does not import at the pinned commit). Capacity and width enumerated; contents symbolic (data independence is not assumed). Trusted: scheduler/tick composition (C01/C07), AstHelper, rtlvc.",
   extra=['contracts:rtl_extra'], require_cover=False,
   assumptions=["enq/deq interface users respect the protocol (en only when rdy) for the EnqIfc/DeqIfc flavour; stream flavour: no assumption"]),
 'C20': dict(level='proof', engine='rtlvc',
   claim="Checksum half only. Proof for all 2^128 inputs and all histories that ChecksumRTL sends exactly the Fletcher checksum (sum1/sum2 recurrences mod 2^16, as in the statement) of the message it buffered, sends exactly when a message is buffered and the receiver is ready, buffers accepted inputs unchanged and in order (1-entry pipe queue); and that the FL function checksum() and utils.b128_to_words/words_to_b128 meet the same specification (pyvc, words symbolic). Hence FL == RTL == spec for every input. The TinyRV0 processor half of C20 is NOT covered.",
   note="Not covered: ProcFL/ProcCL/ProcRTL against the ISA (a pipelined-processor refinement proof over greenlet-based FL code is out of reach of this tool set, DESIGN.md section 6 C20); ChecksumCL's method-level scheduling (its block calls the FL function, which is under contract). Trusted: as C17/C19.",
   extra=['contracts:rtl_extra'], require_cover=False,
   assumptions=["the sender respects recv.rdy (en only when rdy)"]),
 'C15': dict(level='proof',
   claim="Scoped proof: for the _uncollect_vars override of every ComponentLevel (the method replace_component/delete_component use to forget a removed component) and arbitrary (symbolic, unbounded) metadata collections, every all_* collection of the top (update blocks and their host map, U-U constraints, update_ff, RD-U and WR-U constraints, read/write/call maps, update_once blocks, method constraints) loses exactly the removed component's contribution and nothing else (frame), for every iteration order of the sets/dicts involved. The most derived override answers for all levels, so a level that collects but does not uncollect is a failed obligation.",
   note="Not covered: equality with a from-scratch build, nets/writers, simulation equality, Component._delete_component/_add_component themselves (nested closures with repr/eval: out of reach; see DESIGN.md). Collections are modelled as SMT arrays over an algebraic object sort; loops over sets/dicts are proved for an arbitrary unseen element against sidecar invariants.",
   require_cover=False,
   assumptions=["the removed component's update blocks are keys of the top's host/read/write/call maps (it was collected before) - precondition of the del statements",
                "set/dict/defaultdict operations of CPython behave as the array model of pyvc/symcoll.py"]),
 'C06': dict(level='proof',
   claim="Proof per type shape, for all field values (symbolic, unbounded): the generated to_bits / from_bits / __eq__ / __hash__ / clone / __deepcopy__ / @= / <<= / _flip / __init__ of every enumerated bitstruct shape (13 core shapes incl. nested structs, multi-dimensional lists, list-of-struct-in-struct, 1-element lists, 512+511-bit fields, a field named 's'; thorough adds 60 seeded random shapes) meet contracts generated from the statement's layout (first field most significant, list element 0 least significant): packed value and width, from_bits inverse of to_bits, equality iff packed values equal, hashing total, copies equal and sharing no leaf object with the source, @= / <<= copy leaf values into the destination's own objects (frame: nothing else changes). The text verified is the source the real generator emitted (captured by wrapping _create_fn from /verif).",
   note="Shapes are enumerated (a template bug that only shows at nesting depth >= 3 or list rank >= 3 is outside the quick bound); values are not. The generator functions themselves (string templates) are not under contract. Assumes distinct arguments do not alias (x @= x excluded). concat is used through its contract, which is proved for arity <= 5 and assumed beyond.",
   assumptions=["self and other are distinct objects without shared leaves","leaf widths are the declared ones (type invariant)"]),
}
