"""Sidecar: contracts on the real functions of /repo, keyed by file::qualname.  Nothing here edits /repo."""
MODULES=['bits_reg','dsl','mem','sched','nets','upblk','gendag','portrules','mambaff','sccwrap','watched','netrules','vcdfn','flipgroup','netblk']

def rtl_specs():
  from . import rtl_arb, rtl_queues, rtl_cksum
  return list(rtl_arb.SPECS)+list(rtl_queues.SPECS)+list(rtl_cksum.SPECS)
def rtl_spec(key):
  for sp in rtl_specs():
    if sp.key==key: return sp
  raise KeyError(key)
def zoo_extra(checks,families):
  def f(prop,tier,seed,repo,reg,known):
    from zoo.run import run
    return run(checks,families,repo,seed,tier)
  return f
def c01_extra(prop,tier,seed,repo,reg,known):
  """C01: the fixed-point clause proved per library configuration by rtlvc (fixpoint:: obligations only) + zoo agreement stand-in."""
  from .rtl_run import run_specs
  res=run_specs(rtl_specs(),tier,repo)
  for r in res:
    r['obligations']=[o for o in r['obligations'] if o['kind'] in('fixpoint',)]
  from zoo.run import run, run_reg
  return res+run(['sim'],['A','C','M'],repo,seed,tier)+run_reg(repo,seed,tier)
def c02_extra(prop,tier,seed,repo,reg,known):
  from zoo.run import run_meth
  return zoo_extra(['dag','sched'],['A','B','C','M'])(prop,tier,seed,repo,reg,known)+run_meth(repo,seed,tier)
def c07_extra(prop,tier,seed,repo,reg,known):
  from zoo.run import run_reg
  return zoo_extra(['flip','fforder','sim'],['C'])(prop,tier,seed,repo,reg,known)+run_reg(repo,seed,tier)
def c11_extra(prop,tier,seed,repo,reg,known): return zoo_extra(['sim','dag'],['B'])(prop,tier,seed,repo,reg,known)
def c08_extra(prop,tier,seed,repo,reg,known):
  from zoo.run import run_special
  return run_special('nets',repo,seed,tier)
def c09_extra(prop,tier,seed,repo,reg,known):
  from zoo.run import run_special
  return run_special('defect',repo,seed,tier)
def c06_extra(prop,tier,seed,repo,reg,known):
  """bounded stand-in for the class factory (_process_class / mk_bitstruct): same-named declarations that differ in one aspect keep their own shape."""
  import time
  from zoo import bscheck
  t0=time.time()
  try: r=bscheck.check(repo)
  except Exception as e: r=[f"the class-factory check could not run: {type(e).__name__}: {str(e)[:160]}"]
  fails=[dict(args={'design':'bitstruct-class-factory'},failed=[m],custom=dict(kind='custom',module='zoo.replay',entry='replay_bs')) for m in r[:6]]
  bound=("class factory of bitstructs.py: 9 pairs of same-named declarations differing in one aspect (leaf width, outer list length, inner / middle list dimension, leaf inside a list, nested struct type, "
         "list of nested structs, field order), each in both declaration orders: every type keeps its own width, field order, default shape and to_bits/from_bits width")
  return [dict(key="zoo::bitstruct_class_factory",ok=True,error=None,obligations=[],kind='bounded-standin',lines=None,ast_hash=None,info=None,time=time.time()-t0,is_standin=True,
               standin=dict(evaluations=len(bscheck._decls())*4,failures=fails,bound=bound,per_case={}))]
def c18_extra(prop,tier,seed,repo,reg,known):
  from zoo.run import run_mem
  return run_mem(repo,seed,tier)
def c16_extra(prop,tier,seed,repo,reg,known):
  from zoo.run import run_vcd
  return run_vcd(repo,seed,tier)
def c10_extra(prop,tier,seed,repo,reg,known):
  from zoo.run import run_tc
  return run_tc(repo,seed,tier)
def c12_extra(prop,tier,seed,repo,reg,known):
  from zoo.run import run_tr
  return run_tr('C12',repo,seed,tier)
def c13_extra(prop,tier,seed,repo,reg,known):
  from zoo.run import run_tr
  return run_tr('C13',repo,seed,tier)
def c15_extra(prop,tier,seed,repo,reg,known):
  from zoo.run import run_repl
  return run_repl(repo,seed,tier)
def c17_extra(prop,tier,seed,repo,reg,known):
  from zoo.run import run_clq
  return rtl_extra(prop,tier,seed,repo,reg,known)+run_clq(repo,seed,tier)
def rtl_extra(prop,tier,seed,repo,reg,known):
  from .rtl_run import run_specs
  return run_specs([sp for sp in rtl_specs() if prop in sp.prop_ids],tier,repo)


FIX_COMMITS=['052e08e','9c79cb1','dce12fb','1afafb3','61a0063','7632b61','95f312b','22cc801','ef02dce','8ef5b7c','87ae370','ea7dd35','8b5fe28','f3d2cf6','10cf02b']

PROPERTIES={
 'C04': dict(level='proof',
   claim="Proof, for every width 1..1023 and all operand values (symbolic, unbounded), that each Bits operator/constructor/assignment/conversion method of PythonBits.py meets a contract transcribed from the statement (exact result mod 2^n, result width, stored value in [0,2^n), error cases, frame). 421 obligations, all discharged from the current source on every run; a failed obligation is replayed natively.",
   note="Trusted: the pyvc VC generator, z3/cvc5, the lemma schemas about pow2/&/|/^ (ground instances; cross-checked natively each run), CPython int semantics. The generated BitsN subclasses of bits_import.py are not under contract (they only forward to Bits.__init__).",
   explanation="every method of PythonBits.Bits is symbolically executed from /repo's source against a contract transcribed from the property statement; width n and operands are symbolic (unbounded)",
   extra=['contracts.bits_reg:extra_checks'],
   trusted_base=["module-level tables _upper/_lower: verified by complete concrete execution of the defining loop against 2^i-1 / -2^(i-1) (1024 entries each)"],
   assumptions=["the pypy 'mamba' Bits implementation is not in use (bits_import falls back to PythonBits on CPython)",
                "operands are Bits instances or int/bool; floats and arbitrary objects with __int__ are outside the statement"]),
 'C05': dict(level='proof',
   claim="Proof, for every width, value, index and slice bound (symbolic, valid and invalid, int or Bits bounds), that Bits.__getitem__/__setitem__ read/replace exactly bits lo..hi-1 (closed form: old - field*2^lo + new*2^lo, nbits unchanged, value stays in range) or raise IndexError / an error as the statement demands, and that concat (arity<=5), trunc, zext, sext, reduce_and/or/xor meet their bit-level definitions. clog2 uses floating point and is checked by a bounded stand-in (labelled bounded, not counted as proved).",
   note="Trusted: as C04, plus the unfolding axiom of the spec function parity (its definition) used in reduce_xor's loop invariant. concat is proved per arity 0..5 (loop unrolled), values/widths symbolic. clog2: bounded stand-in over N<=2^16 and 2^k+d (k<=1100,|d|<=2).",
   extra=['contracts.bits_reg:extra_checks_c05'],
   assumptions=["slice bounds are None, int or Bits; the slice step is None or int"]),
 'C19': dict(level='proof', engine='rtlvc',
   claim="Proof per configuration (nreqs 2..8 quick, 2..16 thorough; unbounded in request/enable histories and values): with the invariant 'priority register is one-hot', every cycle of RoundRobinArbiter and RoundRobinArbiterEn satisfies: grants is zero or one-hot, inside reqs, non-zero iff reqs non-zero, equal to the first requester at or cyclically after the pointer; the pointer becomes rotl(grants) exactly when a grant happens (and en is high for the enabled variant), otherwise holds; reset restores pointer 1; a fairness ranking (distance from the pointer) strictly decreases for every passed-over requester. Also: re-running any block after evaluation changes nothing.",
   note="The update-block ASTs of the real classes are executed symbolically over bit-vectors in the real schedule order (GenDAGPass + DynamicSchedulePass run for real); operator semantics = postconditions of the Bits contracts (C04/C05) via the transfer table of rtlvc/bvsem.py (self-checked by z3 for small widths). Trusted: AstHelper's read/write extraction used by the scheduler, the tick composition (C01/C07), rtlvc itself. nreqs is enumerated, not symbolic.",
   extra=['contracts:rtl_extra'], require_cover=False,
   assumptions=["structure parameter nreqs enumerated 2..8 (quick) / 2..16 (thorough); a proof for symbolic nreqs would need a parametric netlist = a hand-written model (refused)"]),
 'C17': dict(level='other', engine='rtlvc',
   explanation="RTL queues proved per configuration by rtlvc; cycle-level queues checked natively on enumerated scenarios (bounded)",
   claim="Mixed. Bounded stand-in for the cycle-level queues: NormalQueueCL / PipeQueueCL / BypassQueueCL, capacity 1..3, every legal order of the enqueueing and dequeueing blocks, seeded offer sequences: ready answers follow the table of the statement, FIFO order, occupancy bounded. RTL queues: Proof per configuration (capacity 1..4 quick / 1..8 thorough, entry width 1 and 8 with symbolic contents; unbounded in histories): the six RTL queue classes of stdlib/queues/queues.py and stdlib/stream/queues.py and the four enable/ready (push-interface) queues of stdlib/queues/enrdy_queues.py (NormalQueue1RTL, PipeQueue1RTL, BypassQueue1RTL, BypassQueue2RTL; there the dequeue clause reads: deq.en is raised exactly when the consumer is ready and a message is available) refine a FIFO: with the abstraction seq = [regs[(head+i) mod n] : i < count] and the invariant count<=n, head,tail<n, tail=(head+count) mod n, every protocol-legal cycle gives the rdy/val table of the statement for the queue kind, the dequeued message is the oldest accepted one (bypass: the incoming one when empty), count is the occupancy, and seq' = (seq ++ [msg] if enq)[1:] if deq. Violations are reported as traces from reset replayed on the real simulator.",
   note="Cycle-level queues only by the bounded stand-in (method scheduling is outside rtlvc). Not covered: enrdy_queues.py, valrdy_queues.py (the latter does not import at the pinned commit). Capacity and width enumerated; contents symbolic (data independence is not assumed). Trusted: scheduler/tick composition (C01/C07), AstHelper, rtlvc. stdlib/queues/valrdy_queues.py cannot be imported on this tree (InValRdyIfc / OutValRdyIfc no longer exist), so its classes are not instantiable and not covered. BypassQueue2RTL violates the 'enqueue iff not full' clause (known finding F16, reported as KNOWN-FINDING); the reset clause is not stated for the two enable/ready queues whose full bit has no reset logic.",
   extra=['contracts:c17_extra'], require_cover=False,
   assumptions=["enq/deq interface users respect the protocol (en only when rdy) for the EnqIfc/DeqIfc flavour; stream flavour: no assumption"]),
 'C20': dict(level='proof', engine='rtlvc',
   claim="Checksum half only. Proof for all 2^128 inputs and all histories that ChecksumRTL sends exactly the Fletcher checksum (sum1/sum2 recurrences mod 2^16, as in the statement) of the message it buffered, sends exactly when a message is buffered and the receiver is ready, buffers accepted inputs unchanged and in order (1-entry pipe queue); and that the FL function checksum() and utils.b128_to_words/words_to_b128 meet the same specification (pyvc, words symbolic). Hence FL == RTL == spec for every input. The TinyRV0 processor half of C20 is NOT covered.",
   note="Not covered: ProcFL/ProcCL/ProcRTL against the ISA (a pipelined-processor refinement proof over greenlet-based FL code is out of reach of this tool set, DESIGN.md section 6 C20); ChecksumCL's method-level scheduling (its block calls the FL function, which is under contract). Trusted: as C17/C19.",
   extra=['contracts:rtl_extra'], require_cover=False,
   assumptions=["the sender respects recv.rdy (en only when rdy)"]),
 'C15': dict(level='other',
   explanation="the uncollect functions are proved deductively; replace_component as a whole is compared with a from-scratch build on enumerated scenarios (bounded)",
   claim="Mixed. Bounded stand-in: 72 replacement scenarios (attribute child, child read by a parent block, list element, list element two levels down; replace_component, replace_component_with_obj, three replacements in a row; children with registers, inner components, internal constant connections, explicit constraints) give component/signal name sets, nets with writers, adjacency, update blocks with read/write sets, update_ff and explicit constraints equal to those of the same classes built from scratch, leave no '<deleted>' object reachable and simulate identically. Scoped proof: for the _uncollect_vars override of every ComponentLevel (the method replace_component/delete_component use to forget a removed component) and arbitrary (symbolic, unbounded) metadata collections, every all_* collection of the top (update blocks and their host map, U-U constraints, update_ff, RD-U and WR-U constraints, read/write/call maps, update_once blocks, method constraints) loses exactly the removed component's contribution and nothing else (frame), for every iteration order of the sets/dicts involved. The most derived override answers for all levels, so a level that collects but does not uncollect is a failed obligation. ComponentLevel1._collect_vars adds exactly the component's update blocks (hosted by that component) and U-U constraints (the inverse of its _uncollect_vars).",
   note="Component._delete_component/_add_component themselves are not under discharged contracts (nested closures with repr/eval: out of reach): equality with a from-scratch build is bounded evidence only. Collections are modelled as SMT arrays over an algebraic object sort; loops over sets/dicts are proved for an arbitrary unseen element against sidecar invariants.",
   extra=['contracts:c15_extra'], require_cover=False,
   assumptions=["the removed component's update blocks are keys of the top's host/read/write/call maps (it was collected before) - precondition of the del statements",
                "set/dict/defaultdict operations of CPython behave as the array model of pyvc/symcoll.py"]),
 'C06': dict(level='proof',
   claim="Proof per type shape, for all field values (symbolic, unbounded): the generated to_bits / from_bits / __eq__ / __hash__ / clone / __deepcopy__ / @= / <<= / _flip / __init__ (given arguments, and default construction: pairwise distinct zero leaves) of every enumerated bitstruct shape (13 core shapes incl. nested structs, multi-dimensional lists, list-of-struct-in-struct, 1-element lists, 512+511-bit fields, a field named 's'; thorough adds 60 seeded random shapes) meet contracts generated from the statement's layout (first field most significant, list element 0 least significant): packed value and width, from_bits inverse of to_bits, equality iff packed values equal, hashing total, copies equal and sharing no leaf object with the source, @= / <<= copy leaf values into the destination's own objects (frame: nothing else changes). The text verified is the source the real generator emitted (captured by wrapping _create_fn from /verif).",
   note="Shapes are enumerated (a template bug that only shows at nesting depth >= 3 or list rank >= 3 is outside the quick bound); values are not. The generator functions themselves (string templates) are not under contract. Assumes distinct arguments do not alias (x @= x excluded). concat is used through its contract, which is proved for arity <= 5 and assumed beyond.",
   extra=['contracts:c06_extra'],
   assumptions=["self and other are distinct objects without shared leaves","leaf widths are the declared ones (type invariant)"]),
 'C01': dict(level='other', engine='rtlvc',
   claim="Mixed. Proved (rtlvc, per library configuration, all states and inputs): for every stdlib design under C17/C19/C20 the settled state is a fixed point - re-running any update block or net block after evaluation changes no signal. Bounded stand-in (labelled bounded, not proved): on the design zoo (families A and C of zoo/designs.py, 214 designs: whole/slice/field/nested writers x readers x net forwarding x predecessor blocks; register designs) every scheduling pass group (default/dynamic, simple with 4 tie-break seeds, heuristic-topological, Mamba2020, unrolled) yields identical values of all signals after every evaluation and tick on seeded random inputs, and re-running any block changes nothing.",
   note="The Kahn scheduler of SimpleSchedulePass is proved to produce a constraint-respecting permutation for every tie-break (obligations counted under C02 and here); the other schedulers, GenDAGPass and the tick composition are covered by the bounded stand-in only, so agreement across all schedules is bounded evidence, not proof. Trusted: AstHelper read/write extraction.",
   explanation="fixed-point obligations are discharged symbolically per configuration by rtlvc; schedule independence is checked natively on an exhaustively enumerated design zoo (bounded)",
   extra=['contracts:c01_extra'], require_cover=False,
   assumptions=["block footprints as extracted by AstHelper are the real ones; blocks are deterministic"]),
 'C02': dict(level='other',
   claim="Mixed. Proved: (1) SimpleSchedulePass.schedule_intra_cycle (the Kahn scheduler) - for arbitrary block sets, arbitrary constraint sets, every iteration order of the Python sets/dicts involved and every outcome of random.shuffle: on normal return update_schedule is a duplicate-free list of exactly the combinational blocks (final_upblks minus update_ff) in which every constraint (u,v) between scheduled blocks has u strictly before v, and an exception can only leave the function when not every block could be scheduled (check_schedule under its own contract); three loop invariants with ghost predecessor sets and a finite-set cardinality function; (2) Connectable._overlap decides bit-overlap of two index/slice ranges exactly (all integers); (3) HeuristicTopoPass.schedule_intra_cycle (Kahn with a priority queue) satisfies the same contract as (1); (4) GenDAGPass._process_value_constraints, for arbitrary read/write sets of update blocks and net blocks, arbitrary explicit constraints and arbitrary signal hierarchies (parent chains of any depth, any sibling-slice overlap relation): for every combinational writer block a and other block b with a write and a read on the same signal, on a signal and one of its signal ancestors (either way round), or on overlapping sibling slices, all_constraints contains (a,b) - or (b,a) exactly when an explicit constraint says so - every explicit U-U constraint is in all_constraints, and constraint_objs records for such a pair the signal that caused it - the read signal for the rules seen from the reader's side (same signal / written ancestor / overlapping sibling slice), the written signal for the rule seen from the writer's side (read ancestor) (20 loop invariants, ghost position in the parent chain; signal structure methods as pure uninterpreted functions). Bounded stand-in: on the design zoo (262 designs incl. struct fields, nested fields, overlapping slices, net forwarding, cycles, registers) GenDAGPass orders every writer block/net step before every block that reads an overlapping bit (bit ranges computed independently from the signal objects), constraint_objs covers the communicated bits, and every scheduler (dynamic; simple with 6 seeds; heuristic-topological) places each block exactly once and respects every constraint.",
   note="GenDAGPass._process_value_constraints, HeuristicTopoPass, DynamicSchedulePass (SCC condensation) and Mamba2020Pass are not under discharged contracts (zoo only); lists whose order is irrelevant to the code (Q, Es[u], update_schedule) are abstracted by their element sets with duplicate-freeness proved at every append; positions are the ghost map 'number of blocks appended before'; finite-set cardinality facts (card >= 0, card = 0 iff empty, +-1 on insert/delete, subset with equal cardinality is equality) are assumed; MAMBA_DAG assumed unset; method constraints and WrapGreenletPass only through 24 zoo designs (blocks calling blocking / non-blocking methods under M- or U-chains); OpenLoopCLPass is not covered. Labelled bounded.",
   explanation="one small function proved deductively; the pass-level contract is evaluated natively on an enumerated design zoo (bounded)",
   extra=['contracts:c02_extra'], require_cover=False, assumptions=["AstHelper read/write extraction"]),
 'C07': dict(level='other',
   claim="Mixed. Proved (all widths/values; all enumerated struct shapes): Bits.__ilshift__ writes only the shadow value (_next) with exactly the accepted range and leaves the visible value alone, Bits._flip commits exactly the last assigned value, and the generated bitstruct __ilshift__/_flip do the same leaf by leaf without aliasing the source; Mamba2020Pass.schedule_ff (packing of the update_ff blocks into compiled meta blocks) puts every update_ff block into exactly one meta block for arbitrary branchiness values and thresholds; SimpleSchedulePass.schedule_ff is exactly the set of update_ff blocks; the grouping step of schedule_posedge_flip (a region of the function) keeps every signal that needs double buffering in exactly one list and adds nothing, however often the lists are re-grouped under parent objects. Bounded stand-in: on the register families C and R of the design zoo the generated double-buffer function flips exactly the signals written with <<= (each once), register traces are identical for every order of the update_ff blocks and every pass group, and equal a pre-edge reference model (family R: 61 register hierarchies incl. flat designs with up to 24 branchy blocks and two/three-level hierarchies, values after sim_reset() and after every tick).",
   note="schedule_posedge_flip / collect_ff_funcs / lock_in_simulation are checked only through their effect on zoo designs (bounded), not by discharged contracts.",
   explanation="double-buffer primitives proved deductively; tick composition checked natively on an enumerated zoo (bounded)",
   extra=['contracts:c07_extra'], require_cover=False, assumptions=["user code does not rebind signals with plain '=' at simulation time"]),
 'C11': dict(level='other',
   claim="Mixed. Proved per generated text (captured at run time from the real DynamicSchedulePass and Mamba2020Pass applied to the cyclic designs of the zoo; all signal widths and values, any behaviour of the group): the loop wrapped around a cyclic group (wrapped_SCC_k) returns only if every watched signal has the value it had before the last evaluation of the group, raises UpblkCyclicError only after 100 evaluations that each changed a watched signal, raises nothing else and evaluates the group at most 100 times (termination measure 100 - N). Proved for two regions of schedule_intra_cycle in both passes (extracted mechanically by statement text, arbitrary sets and signal hierarchies): every signal that constraint_objs records for an edge inside the cyclic group is collected, and the clean-up of the watched set keeps every collected signal or replaces it by its whole top-level signal and adds nothing else. The SCC computation and the choice of what constraint_objs records are covered only by the bounded stand-in: on the cyclic family of the design zoo (20 designs: false loops through disjoint slices and struct fields, convergent true loops, two signals between the same pair of blocks, 3-block rings; with and without a predecessor block fixing the entry point; both definition orders) the cycle-capable schedulers (dynamic, Mamba2020) return only fixed points (re-running any block changes nothing), false loops agree across schedulers, schedulers without cycle support reject the design, and the constraint objects cover every communicated bit (so every bit carrying the cycle is watched). Inputs: seeded random, including one-input-at-a-time histories.",
   note="The generated SCC wrapper and the watched-set computation are not under discharged contracts. Labelled bounded.",
   explanation="executable statement of the property evaluated natively on an exhaustively enumerated family of cyclic designs",
   extra=['contracts:c11_extra'], require_cover=False, assumptions=[]),
 'C08': dict(level='other',
   claim="Mixed. Proved (arbitrary signal sets and arbitrary symmetric adjacency maps, every iteration order of the sets and every pop order of the work list; unbounded): ComponentLevel3._floodfill_nets returns nets that are exactly the connected components with at least two members of the connection graph - every net is closed under adjacency, connected (every member has a ghost parent chain of adjacent members to the net's root), nets are pairwise disjoint, and every listed signal with a neighbour is in one; no exception other than InvalidConnectionError can leave the function; the reader selection of GenDAGPass._generate_net_blocks (a region of the function) copies the writer's value to exactly the members that do not share the net's value object (slices, struct fields; plus one top-level member when the writer itself is a slice / field). Which member is named writer (_resolve_value_connections) and the simulated values are covered only by the bounded stand-in: 8 connection multisets over signals, slices (incl. a slice of a slice naming the same bits as a plain slice), struct fields at two depths with the whole struct connected too, constants and child ports, each in up to 6 (quick) / 24 (thorough) statement permutations x 3 side-flip patterns (117 designs quick): every variant elaborates to the same nets and writers, each net has exactly one writer that is a member, and in simulation every member carries the writer's value.",
   note="_resolve_value_connections (writer choice) is not under a discharged contract; the list `nets` is abstracted as {root: net}, the work list as a bag (contracts/nets.py). The stand-in is labelled bounded.",
   explanation="net grouping proved deductively on the real function; writer choice and simulated net values by an executable statement of the property on an enumerated family of connection graphs",
   extra=['contracts:c08_extra'], require_cover=False, assumptions=["the adjacency map is symmetric (every connect/disconnect updates both directions)"]),
 'C09': dict(level='other',
   claim="Mixed. Proved: Connectable._overlap (the bit-overlap test used for sibling slices) is exact; ComponentLevel3._floodfill_nets leaves only with its nets or with InvalidConnectionError (never another exception) for every symmetric adjacency map, self-connections included; ComponentLevel2._check_upblk_writes, for arbitrary write sets and arbitrary signal hierarchies (parent chains of any depth, any sibling-slice overlap relation), returns normally only if no signal, no signal and one of its signal ancestors, and no pair of overlapping sibling slices is written by two different update blocks, and raises nothing but MultiWriterError; ComponentLevel2._check_port_in_upblk returns normally only if every Wire read or written and every OutPort written by an update block belongs to the block's own component and every InPort written belongs to a child of the block's component (host component = first component on the parent chain, any depth), and raises nothing but SignalTypeError; ComponentLevel3._check_port_in_nets returns normally only if, in every net, the signals reached from the writer are closed under adjacency and each was reached over an edge whose driver / driven port kinds are legal for the relative position of their host components (same host, driven host is the parent, driver host is the parent, siblings; farther apart is rejected). Bounded stand-in: 47 designs covering every defect class of the statement (two blocks on one signal, field vs parent, nested field twice, overlapping slices, slice vs whole, block vs net, two nets, net vs slice, undriven net, connection loops in 3 orders, 10 hierarchical-position cases for blocks and nets incl. constants, 9 wrong-operator cases incl. nested statements) in every order of their statements fail elaboration with the corresponding error class, and the defect-free counterparts (disjoint slices/fields, one block writing overlapping slices, tree connections, legal parent/child accesses) elaborate.",
   note="_resolve_value_connections / _collect_vars are not under discharged contracts; the structure methods of signals (is_signal, get_parent_object, get_sibling_slices, slice_overlap) are pure uninterpreted functions in the proof of _check_upblk_writes; designs with two simultaneous defects may report either error. Labelled bounded.",
   explanation="one helper proved; the elaboration checks are exercised natively on an enumerated defect table",
   extra=['contracts:c09_extra'], require_cover=False, assumptions=[]),
 'C18': dict(level='other',
   claim="Mixed. Proved (addresses, memory contents and data symbolic; access length enumerated 1..8 bytes): read_bytearray_bits returns exactly the little-endian value of bytes [addr, addr+n) as Bits(8n) and leaves memory alone; write_bytearray_bits sets exactly those bytes to the little-endian bytes of the data and frames every other byte; each of the nine atomic operations of MagicMemoryFL (add/and/or/xor/swap, signed and unsigned min/max) returns the specified result for all widths and operands. Bounded stand-in: the real MagicMemoryCL and stream MagicMemoryRTL, driven by seeded random request streams (reads, writes, all AMOs, lengths 1..4, overlapping addresses) on 1-2 ports under 72 timing configurations (latency, stall probability, source and sink timing incl. back-pressure), return per port exactly the responses of a sequential byte-array specification in request order and end with the same memory image.",
   note="MagicMemoryCL.up_mem / MagicMemoryRTL.up_mem and the delay/stall components are exercised only by the bounded stand-in (CL method scheduling and greenlets are outside pyvc/rtlvc). Ports use disjoint address regions in the stand-in, so inter-port ordering is not constrained.",
   explanation="memory primitives proved deductively; system-level in-order/timing-independence checked natively on enumerated timing configurations (bounded)",
   extra=['contracts:c18_extra'], require_cover=False, assumptions=["Bits data passed to write_bytearray_bits has at least 8 bits (always 8*nbytes in the memories)"]),
 'C16': dict(level='other',
   claim="Mixed. Proved (arbitrary nets, values and cycle counts): the per-cycle VCD writer dump_vcd_inner writes a value line for exactly the nets whose value string differs from the one last written, makes the current strings the remembered ones and leaves every other entry alone, stamps the falling / rising clock edges 100n+50 / 100n+100 and advances the cycle counter by one. The header (scopes, $var names, symbols, initial values), the text-wave pass and the composition with the simulator are covered by the bounded stand-in: on 17 designs (zoo families A and C samples, a 96-stage and a 10-stage delay line with a struct signal, a shared net and a never-changing signal, a 64-bit signal walking through values whose (width,value) hashes coincide) and 2 (quick) / 6 (thorough) seeded input sequences, the VCD file written by VcdGenerationPass - read back by an independent parser written here - declares every signal of every component with its width and gives it at every cycle exactly the packed value the simulator held; the clock toggles exactly once per cycle; the text-wave record holds the same values. The symbol generator, extracted mechanically from the real source, yields 100000 pairwise distinct printable symbols.",
   note="In the proof of dump_vcd_inner, eval(repr(signal)).to_bits().to_vcd_str() is a pure function of the signal and print() is reduced to which net positions get a line; recurse_models, the symbol generator and PrintTextWavePass are not under discharged contracts. The stand-in is labelled bounded.",
   explanation="executable statement of the property on enumerated designs and seeded inputs",
   extra=['contracts:c16_extra'], require_cover=False, assumptions=["file writes are not reordered"]),
 'C10': dict(level='other',
   claim="Mixed. Proved (all non-negative integers): RTLIRDataType._get_nbits_from_value returns the least width that holds the literal. Bounded stand-in: for 618 update blocks (assignments, + & == <, conditional expressions with explicit and literal branches also nested in an addition, ascending and descending constant-bound loops, temporaries; Bits4/Bits8 signals, a slice, literals 0..256) every block the RTLIR type checker accepts simulates over a 24-point input grid without any bitwidth or implicit-truncation error, and every block whose simulation raises a width mismatch between explicitly sized operands is rejected.",
   note="The checker's visitor methods are not under discharged contracts; the whole-program induction (static width == runtime width for every sub-expression) is not machine-checked; struct fields, indices and L3+ features are not in the probe family. The method copy BehavioralRTLIRTypeCheckVisitorL1._get_nbits_from_value is checked through the probes only. Labelled bounded.",
   explanation="literal-width function proved; acceptance/rejection verdicts compared with simulation on an enumerated family of blocks",
   extra=['contracts:c10_extra'], require_cover=False, assumptions=["blocks use no explicit width-changing cast and no shifts (as the statement excludes them)"]),
 'C12': dict(level='other', bounded_only=True,
   claim="Bounded stand-in only, flat-port-map clause only: on a design with struct-typed ports (nested struct, two-dimensional lists, list inside a nested struct) in both directions and a 2x3 port array, the Yosys translation connects every flattened leaf port to exactly the bit range that the packed value (real to_bits, under contract in C06) gives that leaf, and every array element to its flattened port.",
   note="Behavioural equivalence of the emitted Verilog and the single-driver clause are NOT covered (no Verilog semantics here; same reason as C03). Observed while building the check (not claimed, not checked): output struct ports get two continuous assignments per leaf. Labelled bounded.",
   explanation="executable statement of the flat-port-map clause on one enumerated design",
   extra=['contracts:c12_extra'], require_cover=False, assumptions=[]),
 'C13': dict(level='other', bounded_only=True,
   claim="Bounded stand-in only: module names of instances of parametrised components (partially overridden defaults, a negative parameter) are legal identifiers and coincide only for equal class and full construct arguments; SystemVerilog and Yosys translations of three designs in fresh processes under five PYTHONHASHSEED values are byte-identical up to comment lines; each module is defined once and every instantiated module is defined.",
   note="'bodies identical' is approximated by 'same class and same construct arguments'; get_component_unique_name is not under a discharged contract (string theory not attempted). Labelled bounded.",
   explanation="executable statement of the property on enumerated designs and hash seeds",
   extra=['contracts:c13_extra'], require_cover=False, assumptions=[]),
}
