"""Sidecar: contracts on the real functions of /repo, keyed by file::qualname.  Nothing here edits /repo."""
MODULES=['bits_reg']

FIX_COMMITS=['052e08e','9c79cb1']

PROPERTIES={
 'C04': dict(level='proof',
   claim="Proof, for every width 1..1023 and all operand values (symbolic, unbounded), that each Bits operator/constructor/assignment/conversion method of PythonBits.py meets a contract transcribed from the statement (exact result mod 2^n, result width, stored value in [0,2^n), error cases, frame). 421 obligations, all discharged from the current source on every run; a failed obligation is replayed natively.",
   note="Trusted: the pyvc VC generator, z3/cvc5, the lemma schemas about pow2/&/|/^ (ground instances; cross-checked natively each run), CPython int semantics. The generated BitsN subclasses of bits_import.py are not under contract (they only forward to Bits.__init__).",
   explanation="every method of PythonBits.Bits is symbolically executed from /repo's source against a contract transcribed from the property statement; width n and operands are symbolic (unbounded)",
   extra=['contracts.bits_reg:extra_checks'],
   trusted_base=["module-level tables _upper/_lower: verified by complete concrete execution of the defining loop against 2^i-1 / -2^(i-1) (1024 entries each)"],
   assumptions=["the pypy 'mamba' Bits implementation is not in use (bits_import falls back to PythonBits on CPython)",
                "operands are Bits instances or int/bool; floats and arbitrary objects with __int__ are outside the statement"]),
 'C05': dict(level='proof',
   claim="Proof, for every width, value, index and slice bound (symbolic, valid and invalid, int or Bits bounds), that Bits.__getitem__/__setitem__ read/replace exactly bits lo..hi-1 (closed form: old - field*2^lo + new*2^lo, nbits unchanged, value stays in range) or raise IndexError / an error as the statement demands, and that concat (arity<=5), trunc, zext, sext, reduce_and/or/xor meet their bit-level definitions. clog2 uses floating point and is checked by a bounded stand-in (labelled bounded, not counted as proved).",
   note="Trusted: as C04, plus the unfolding axiom of the spec function parity (its definition) used in reduce_xor's loop invariant. concat is proved per arity 0..5 (loop unrolled), values/widths symbolic. clog2: bounded stand-in over N<=2^16 and 2^k+d (k<=1100,|d|<=2).",
   extra=['contracts.bits_reg:extra_checks_c05'],
   assumptions=["slice bounds are None, int or Bits; the slice step is None or int"]),
}
