"""C09: ComponentLevel2._check_port_in_upblk (which update block may read / write which signal, by hierarchical position) under contract.

Objects are abstract: class membership (InPort / OutPort / Wire / component) and get_parent_object are pure uninterpreted functions of the
objects; anc(x,k) is the k-th parent and the host component of a signal is its first ancestor-or-self that is a component (HOST)."""
import z3
from pyvc.contracts import Contract, Case, Loop
from pyvc.values import I
from pyvc.symexec import as_int
from pyvc.symcoll import ObjK, SetOf, DictOf, CompT, Obj, declare_pure_method
from . import upblk
from .upblk import ANC, PAR

F='pymtl3/dsl/ComponentLevel2.py'
Blk=ObjK('Blk'); Sig=ObjK('Sig')
P_IN=declare_pure_method('is_inport',1,'bool'); P_OUT=declare_pure_method('is_outport',1,'bool'); P_WIRE=declare_pure_method('is_wire',1,'bool'); P_COMP=declare_pure_method('is_component',1,'bool')

def ghost_init(ex,st):
  upblk.ghost_init(ex,st)
  x=z3.Const('x!cls',Obj)
  # InPort, OutPort and Wire are different classes without a common instance (class hierarchy of pymtl3/dsl/Connectable.py)
  st.pc.append(z3.ForAll([x],z3.And(z3.Not(z3.And(P_IN(x),P_OUT(x))),z3.Not(z3.And(P_IN(x),P_WIRE(x))),z3.Not(z3.And(P_OUT(x),P_WIRE(x)))),patterns=[P_IN(x)]))
  st.pc.append(z3.ForAll([x],z3.And(z3.Not(z3.And(P_IN(x),P_OUT(x))),z3.Not(z3.And(P_IN(x),P_WIRE(x))),z3.Not(z3.And(P_OUT(x),P_WIRE(x)))),patterns=[P_WIRE(x)]))
  st.pc.append(z3.ForAll([x],z3.And(z3.Not(z3.And(P_IN(x),P_OUT(x))),z3.Not(z3.And(P_IN(x),P_WIRE(x))),z3.Not(z3.And(P_OUT(x),P_WIRE(x)))),patterns=[P_OUT(x)]))
def h_start(ex,st): st.env['g_j']=I(z3.IntVal(0))
def h_up(ex,st): st.env['g_j']=I(as_int(st.env['g_j'])+1)

AUR='s._dsl.all_upblk_reads'; AUW='s._dsl.all_upblk_writes'; HO='s._dsl.all_upblk_hostobj'
HOST=lambda o,k: f"({k} >= 0 and is_component(anc({o}, {k})) and forall_int(i, implies(0 <= i and i < {k}, not is_component(anc({o}, i)))))"
WRULE=lambda o,k,h: (f"(implies(is_inport({o}), get_parent_object(anc({o}, {k})) == {h}) and implies(is_outport({o}), {h} == anc({o}, {k})) and implies(is_wire({o}), {h} == anc({o}, {k})))")
WHILE=["g_j >= 0 and host == anc(obj, g_j)","forall_int(i, implies(0 <= i and i < g_j, not is_component(anc(obj, i))))"]

def contracts():
  TopT=CompT('Component',{'_dsl.all_upblk_reads':DictOf(Blk,SetOf(Sig)),'_dsl.all_upblk_writes':DictOf(Blk,SetOf(Sig)),'_dsl.all_upblk_hostobj':DictOf(Blk,ObjK('Comp'))})
  return [Contract(f'{F}::ComponentLevel2._check_port_in_upblk', view={'s':TopT},
    cases=[Case('any', requires=f"subset(dom({AUR}), dom({HO})) and subset(dom({AUW}), dom({HO}))", raises_or_ensures=True, raises='SignalTypeError',
      ensures=f"forall(b, o, implies(b in dom({AUR}) and o in at({AUR}, b) and is_wire(o), forall_int(k, implies({HOST('o','k')}, getv({HO}, b) == anc(o, k))))) and "
              f"forall(b, o, implies(b in dom({AUW}) and o in at({AUW}, b), forall_int(k, implies({HOST('o','k')}, {WRULE('o','k',f'getv({HO}, b)')}))))",
      source="C09: 'a signal is read/written/driven from a hierarchical position the port rules forbid ... fails elaboration with the corresponding error': on normal return every Wire read or written, and every "
             "OutPort written, by an update block belongs to the block's own component, and every InPort written belongs to a child of the block's component; the only exception that may leave is SignalTypeError")],
    loops={f'in {AUR}.items()':Loop(invariant=[f"forall(b, o, implies(b in seen and o in at({AUR}, b) and is_wire(o), forall_int(k, implies({HOST('o','k')}, getv({HO}, b) == anc(o, k)))))"], modifies=[]),
           'for obj in reads':Loop(invariant=[f"forall(o, implies(o in seen and is_wire(o), forall_int(k, implies({HOST('o','k')}, blk_hostobj == anc(o, k)))))"], modifies=[]),
           'while not isinstance(host, ComponentLevel2)#1':Loop(invariant=WHILE, modifies=[], ghost=['g_j']),
           f'in {AUW}.items()':Loop(invariant=[f"forall(b, o, implies(b in seen and o in at({AUW}, b), forall_int(k, implies({HOST('o','k')}, {WRULE('o','k',f'getv({HO}, b)')}))))"], modifies=[]),
           'for obj in writes':Loop(invariant=[f"forall(o, implies(o in seen, forall_int(k, implies({HOST('o','k')}, {WRULE('o','k','blk_hostobj')}))))"], modifies=[]),
           'while not isinstance(host, ComponentLevel2)#2':Loop(invariant=WHILE, modifies=[], ghost=['g_j'])},
    ghost_init=ghost_init, ghost_hooks={'host = obj':h_start,'host = host.get_parent_object()':h_up},
    pure_methods={'get_parent_object':1}, class_predicates={'InPort':'is_inport','OutPort':'is_outport','Wire':'is_wire','ComponentLevel2':'is_component'},
    modifies=[], returns=None, property_ids=('C09',), sample=False,
    note="class membership (InPort / OutPort / Wire pairwise disjoint, component) and get_parent_object are pure functions of the objects (assumption); components compare by identity; "
         "every update block has a host component entry (precondition, established by _collect_vars)")]

def register(reg):
  reg.declare_class('SignalTypeError',None,bases=('Exception',),exception=True)
  for c in contracts(): reg.add(c)
