"""C11: which signals the generated SCC wrapper watches - two regions of DynamicSchedulePass.schedule_intra_cycle and of
Mamba2020Pass.schedule_intra_cycle (compile_scc), extracted mechanically by their first / following statement and verified as they stand:

 variables       : every signal recorded in constraint_objs for an edge inside the cyclic group is collected;
 final_variables : every collected signal is watched itself, or its top-level signal is (the clean-up never drops one).

Together with the wrapper contracts (contracts/sccwrap.py: the loop returns only when no watched signal changed) this is the claim 'evaluation
repeats the cyclic group until every signal carrying the cycle is stable', for the signals that constraint_objs records."""
from pyvc.contracts import Contract, Case, Loop
from pyvc.symcoll import ObjK, PairOf, SetOf, DictOf, declare_pure_method

Blk=ObjK('Blk'); Sig=ObjK('Sig')
declare_pure_method('get_top_level_signal',1,'obj'); declare_pure_method('type_is_bits',1,'bool'); declare_pure_method('is_bitstruct_class',1,'bool')
SITES=[('pymtl3/passes/sim/DynamicSchedulePass.py','DynamicSchedulePass.schedule_intra_cycle'),
       ('pymtl3/passes/mamba/Mamba2020Pass.py','Mamba2020Pass.schedule_intra_cycle')]

def contracts():
  cs=[]
  for F,Q in SITES:
    cs.append(Contract(f'{F}::{Q}@final_variables', region=('final_variables = set()','final_var_host = defaultdict(list)'),
      view={'variables':SetOf(Sig)},
      cases=[Case('any', requires='True',
        ensures="forall(x, implies(x in variables, x in final_variables or get_top_level_signal(x) in final_variables)) and "
                "forall(y, implies(y in final_variables, y in variables or exists(x, x in variables and get_top_level_signal(x) == y)))",
        source="C11: 'evaluation repeats the cyclic group until every signal carrying the cycle is stable': the clean-up of the watched set keeps every collected signal or replaces it by its whole top-level signal, and watches nothing else")],
      loops={'in sorted(variables, key=repr)':Loop(invariant=["forall(x, implies(x in seen, x in final_variables or get_top_level_signal(x) in final_variables))",
                                                              "forall(y, implies(y in final_variables, y in seen or exists(x, x in seen and get_top_level_signal(x) == y)))"], modifies=['final_variables'])},
      pure_methods={'get_top_level_signal':1}, opaque_attrs=True, class_predicates={'issubclass:Bits':'type_is_bits'}, pure_functions=('is_bitstruct_class',),
      modifies=[], returns=None, property_ids=('C11',), sample=False,
      note="region of the function, extracted by statement text; get_top_level_signal, the signal's type (w._dsl.Type) and is_bitstruct_class are pure functions of the objects (assumption)"))
    cs.append(Contract(f'{F}::{Q}@variables', region=('variables = set()','if len(variables) == 0:'),
      view={'E':SetOf(PairOf(Blk,Blk)),'scc':SetOf(Blk),'constraint_objs':DictOf(PairOf(Blk,Blk),SetOf(Sig))},
      cases=[Case('any', requires='forall(a, b, implies((a, b) in E, (a, b) in dom(constraint_objs)))',
        ensures="forall(a, b, o, implies((a, b) in E and a in scc and b in scc and o in at(constraint_objs, (a, b)), o in variables))",
        source="C11: every signal recorded for an ordering constraint between two blocks of the cyclic group is collected for watching")],
      loops={'in E':Loop(invariant=["forall(a, b, o, implies((a, b) in seen and a in scc and b in scc and o in at(constraint_objs, (a, b)), o in variables))"], modifies=['variables'])},
      modifies=[], returns=None, property_ids=('C11',), sample=False,
      note="region of the function, extracted by statement text; constraint_objs has an entry for every edge (GenDAGPass adds the object with the constraint)"))
  return cs

def register(reg):
  for c in contracts(): reg.add(c)
