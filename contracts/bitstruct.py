"""C06 (and the struct part of C07): generated bitstruct methods, verified per type shape on the captured generated source.

The real generator (pymtl3/datatypes/bitstructs.py) is run for every enumerated shape with `_create_fn` wrapped from the
/verif side; the text verified is byte-for-byte the text that was compiled.  Contracts are generated from the shape and
the *statement's* layout (first field most significant, list element 0 least significant inside its field) - independent of
how bitstructs.py computes offsets.  Leaf values are symbolic (unbounded); shapes are enumerated (bounded)."""
import sys, itertools, random, hashlib
import z3
from pyvc.contracts import Contract, Case, GenModule
from pyvc.symexec import IntT, BoolT, NoneT, ObjT, OneOf, SpecType, register_spec_fun, as_int, mk_value, ToolError, type_label
from pyvc.values import I, B, Ref, Tup, Cls, ClsN, Fn, NONE
from pyvc import runtime

GEN='generated:bitstructs'

# ------------------------------------------------------------------------------------------ shapes
# a shape: ordered list of (field name, type) ; type = ('bits',w) | ('list',k,type) | ('struct',name)
class Shape:
  def __init__(s,name,fields): s.name=name; s.fields=fields
def leaves(T,shapes,prefix=''):
  """leaf paths in declaration order with their widths: [('a',4), ('b[0]',2), ...]"""
  if T[0]=='bits': return [(prefix,T[1])]
  if T[0]=='list':
    out=[]
    for i in range(T[1]): out+=leaves(T[2],shapes,f"{prefix}[{i}]")
    return out
  out=[]
  for fn,ft in shapes[T[1]].fields: out+=leaves(ft,shapes,f"{prefix}.{fn}" if prefix else fn)
  return out
def width(T,shapes):
  if T[0]=='bits': return T[1]
  if T[0]=='list': return T[1]*width(T[2],shapes)
  return sum(width(ft,shapes) for _,ft in shapes[T[1]].fields)
def layout(T,shapes,prefix,hi):
  """statement of C06: first field most significant; list element 0 least significant within its field.
  returns [(leaf path, lo, w)] for a value whose most significant bit is hi-1."""
  if T[0]=='bits': return [(prefix,hi-T[1],T[1])]
  if T[0]=='list':
    ew=width(T[2],shapes); out=[]; lo=hi-T[1]*ew
    for i in range(T[1]): out+=layout(T[2],shapes,f"{prefix}[{i}]",lo+(i+1)*ew)
    return out
  out=[]
  for fn,ft in shapes[T[1]].fields:
    out+=layout(ft,shapes,f"{prefix}.{fn}" if prefix else fn,hi); hi-=width(ft,shapes)
  return out

def core_shapes():
  B=lambda w:('bits',w)
  sh={}
  def S(name,*fields): sh[name]=Shape(name,list(fields)); return ('struct',name)
  In=S('In_',('x',B(3)),('y',('list',2,B(2))))
  S('P1',('a',B(4)))
  S('P2',('a',B(4)),('b',B(4)))
  S('P3',('a',B(1)),('b',B(8)),('c',B(8)))
  S('Pw',('hi',B(512)),('lo',B(511)))
  S('L1',('a',B(4)),('b',('list',1,B(4))))
  S('L3',('a',B(2)),('b',('list',3,B(5))),('c',B(1)))
  S('L22',('a',B(3)),('b',('list',2,('list',2,B(4)))))
  S('L13',('b',('list',1,('list',3,B(2)))),('s',B(7)))
  S('N1',('p',In),('q',B(6)))
  S('N2',('a',B(4)),('b',('list',1,('list',2,In))),('c',In))
  S('N3',('u',('list',2,In)))
  S('Ss',('s',B(4)),('t',B(2)))           # a field named like the default self name
  return sh

def extra_shapes(seed,count):
  rng=random.Random(seed); sh={}
  for k in range(count):
    fields=[]
    for j in range(rng.randint(1,3)):
      w=rng.choice([1,2,3,4,8,16,31,32,33,64])
      t=('bits',w)
      r=rng.random()
      if r<0.3: t=('list',rng.choice([1,2,3]),t)
      elif r<0.45: t=('list',rng.choice([1,2]),('list',rng.choice([2,3]),t))
      fields.append((f"f{j}",t))
    sh[f"R{seed}_{k}"]=Shape(f"R{seed}_{k}",fields)
  return sh

# ------------------------------------------------------------------------------------------ capture of the generated code
_CACHE={}
def build(repo,shapes):
  """define every shape with the real mk_bitstruct and capture the generated sources. returns {name: dict(cls, sources)}"""
  key=(repo,tuple(sorted(shapes)))
  if key in _CACHE: return _CACHE[key]
  if repo not in sys.path: sys.path.insert(0,repo)
  import pymtl3.datatypes.bitstructs as bs
  from pymtl3.datatypes import mk_bits
  cap=[]; orig=bs._create_fn
  def wrap(fn_name,args_lst,body_lst,_globals=None):
    args=', '.join(args_lst); body='\n'.join(f'  {s}' for s in body_lst)
    cap.append((fn_name,f'def {fn_name}({args}):\n{body}',dict(_globals or {})))
    return orig(fn_name,args_lst,body_lst,_globals)
  bs._create_fn=wrap
  out={}
  try:
    def ty(T):
      if T[0]=='bits': return mk_bits(T[1])
      if T[0]=='list': return [ty(T[2])]*T[1]
      return mk(T[1])
    def mk(name):
      if name in out: return out[name]['cls']
      fields={fn:ty(ft) for fn,ft in shapes[name].fields}
      start=len(cap)
      cls=bs.mk_bitstruct(name+'__vc',fields)
      out[name]=dict(cls=cls,sources=cap[start:])
      return cls
    for name in shapes: mk(name)
  finally: bs._create_fn=orig
  _CACHE[key]=out
  return out

# ------------------------------------------------------------------------------------------ spec types / functions
class StructT(SpecType):
  """an instance of generated class `name`: a tree of fresh leaf Bits objects (distinct references) with symbolic values."""
  def __init__(s,name,shapes,with_next=False): s.name=name; s.shapes=shapes; s.tag=name; s.with_next=with_next
  def make(s,vname,st,fresh):
    return s._mk(('struct',s.name),vname,st,fresh)
  def _mk(s,T,vname,st,fresh):
    if T[0]=='bits':
      r=st.alloc('Bits'); st.heap[(r.id,'_nbits')]=I(T[1]); st.heap[(r.id,'_uint')]=mk_value(IntT(),vname+'._uint',st,fresh)
      if s.with_next: st.heap[(r.id,'_next')]=mk_value(IntT(),vname+'._next',st,fresh)
      return r
    if T[0]=='list':
      return st.alloc('list',{'items':tuple(s._mk(T[2],f"{vname}[{i}]",st,fresh) for i in range(T[1]))})
    r=st.alloc(T[1])
    for fn,ft in s.shapes[T[1]].fields: st.heap[(r.id,fn)]=s._mk(ft,f"{vname}.{fn}",st,fresh)
    return r
  def build_native(s,vname,model,repo,reg):
    cls=build(repo,s.shapes)[s.name]['cls']
    from pymtl3.datatypes import mk_bits
    o=cls()                                   # default-constructed instance: the constructor copies Bits arguments, so leaves are set afterwards
    for path,w in leaves(('struct',s.name),s.shapes):
      b=_walk_nat(o,path)
      object.__setattr__(b,'_uint',int(model.get(f"{vname}.{path}._uint",0)))
      if s.with_next: object.__setattr__(b,'_next',int(model.get(f"{vname}.{path}._next",0)))
    return o
  def sample(s,rng,n,repo,reg):
    model={}
    for path,w in leaves(('struct',s.name),s.shapes):
      for f in ('_uint','_next'): model[f"x.{path}.{f}" if False else f"x.{path}{'.' if False else ''}"]=0
    vals={}
    def fill(T,vn):
      if T[0]=='bits':
        vals[vn+'._uint']=rng.choice([0,1,2**T[1]-1,rng.getrandbits(T[1])]); vals[vn+'._next']=rng.getrandbits(T[1]); return
      if T[0]=='list':
        for i in range(T[1]): fill(T[2],f"{vn}[{i}]")
        return
      for fn,ft in s.shapes[T[1]].fields: fill(ft,f"{vn}.{fn}")
    fill(('struct',s.name),'x')
    vals={k.replace('x.[','x['):v for k,v in vals.items()}
    return s.build_native('x',vals,repo,reg)

def _walk_sym(v,path,st):
  import re
  cur=v
  for tok in re.findall(r'\w+|\[\d+\]',path):
    if tok.startswith('['): cur=st.heap[(cur.id,'items')][int(tok[1:-1])]
    else: cur=st.heap[(cur.id,tok)]
  return cur
def _walk_nat(o,path):
  import re
  cur=o
  for tok in re.findall(r'\w+|\[\d+\]',path):
    cur=cur[int(tok[1:-1])] if tok.startswith('[') else getattr(cur,tok)
  return cur

def register_shape_funs(name,shapes):
  T=('struct',name); W=width(T,shapes); lay=layout(T,shapes,'',W); lv=leaves(T,shapes)
  def pack_sym(field):
    def f(ex,args,st):
      acc=z3.IntVal(0)
      for path,lo,w in lay: acc=acc+as_int(st.heap[(_walk_sym(args[0],path,st).id,field)])*(2**lo)
      return I(acc)
    return f
  def pack_nat(field):
    return lambda o: sum(int(getattr(_walk_nat(o,p),field))<<lo for p,lo,w in lay)
  register_spec_fun(f'pack_{name}',pack_sym('_uint'),pack_nat('_uint'))
  register_spec_fun(f'next_{name}',pack_sym('_next'),pack_nat('_next'))
  def wf_sym(ex,args,st):
    cs=[]
    for path,w in lv:
      r=_walk_sym(args[0],path,st)
      if not isinstance(r,Ref) or r.cls!='Bits': return B(False)
      cs+=[as_int(st.heap[(r.id,'_nbits')])==w, as_int(st.heap[(r.id,'_uint')])>=0, as_int(st.heap[(r.id,'_uint')])<2**w]
    return B(z3.And(*cs))
  def wf_nat(o):
    try: return all(_walk_nat(o,p)._nbits==w and 0<=_walk_nat(o,p)._uint<2**w for p,w in lv)
    except Exception: return False
  register_spec_fun(f'wf_{name}',wf_sym,wf_nat)
  def allfresh_sym(ex,args,st):
    # every leaf object (and every container on the way) of the result did not exist on entry, and leaves are pairwise distinct
    ids=[]
    for path,w in lv:
      r=_walk_sym(args[0],path,st)
      if (r.id,'__class__') in st.entry_heap: return B(False)
      ids.append(r.id)
    return B(len(set(ids))==len(ids))
  def allfresh_nat(o): return True      # native freshness is checked by the disjointness clause below
  register_spec_fun(f'allfresh_{name}',allfresh_sym,allfresh_nat)
  def disj_sym(ex,args,st):
    a={ _walk_sym(args[0],p,st).id for p,w in lv }; b={ _walk_sym(args[1],p,st).id for p,w in lv }
    return B(not (a&b))
  def disj_nat(x,y):
    return not ({id(_walk_nat(x,p)) for p,w in lv} & {id(_walk_nat(y,p)) for p,w in lv})
  register_spec_fun(f'noshare_{name}',disj_sym,disj_nat)

# ------------------------------------------------------------------------------------------ contracts per shape
S_LAYOUT="C06: 'to_bits lays the fields out first-field-most-significant (list element 0 least significant within its field) with total width equal to the sum of the leaf widths'"
S_RT="C06: 'from_bits(to_bits(v)) == v and to_bits(from_bits(b)) == b'"
S_EQ="C06: 'Equality, hashing, clone and deepcopy agree with the packed value'"
S_CP="C06: '@= / <<= copy values field by field (visible immediately / only after the flip) without aliasing the source'"

def shape_contracts(name,shapes,props=('C06',)):
  T=('struct',name); W=width(T,shapes); lv=leaves(T,shapes)
  BitsT=ObjT('Bits',['_nbits','_uint'])
  ST=StructT(name,shapes); STn=StructT(name,shapes,with_next=True)
  cs=[]; K=f'{GEN}::{name}'
  def nat(meth):
    def get(repo):
      C=build(repo,shapes)[name]['cls']
      if meth=='from_bits': return lambda cls,other: C.from_bits(other)
      return getattr(C,meth)
    return get
  cs.append(Contract(f'{K}.to_bits', native=nat('to_bits'), view={'self':ST},
    cases=[Case('wf', requires=f'wf_{name}(self)', ensures=f'valid(result) and result._nbits == {W} and result._uint == pack_{name}(self) and fresh(result)', source=S_LAYOUT)],
    modifies=[], returns=BitsT, property_ids=props))
  def fb_sample(rng,n,variant,repo,reg):
    from pymtl3.datatypes import mk_bits
    w=rng.choice([W,W,W,W,max(1,W-1),min(1023,W+1)])
    b=mk_bits(w)(); object.__setattr__(b,'_uint',rng.choice([0,2**w-1,rng.getrandbits(w),rng.getrandbits(w)]))
    return {'cls':None,'other':b}
  cs.append(Contract(f'{K}.from_bits', native=nat('from_bits'), sample=fb_sample, view={'cls':ClsT(name),'other':BitsT},
    cases=[Case('same-width', requires=f'valid(other) and other._nbits == {W}', ensures=f'wf_{name}(result) and pack_{name}(result) == other._uint and allfresh_{name}(result)', source=S_RT+' / '+S_LAYOUT),
           Case('other-width', requires=f'valid(other) and other._nbits != {W}', raises='Exception', raises_today='AssertionError', source="C04/C06: a value of another width is an error")],
    modifies=[], returns=ST, property_ids=props))
  cs.append(Contract(f'{K}.__eq__', native=nat('__eq__'), view={'self':ST,'other':ST},
    cases=[Case('same-class', requires=f'wf_{name}(self) and wf_{name}(other)', ensures=f'result == (pack_{name}(self) == pack_{name}(other))', source=S_EQ)],
    modifies=[], returns=BoolT(), property_ids=props))
  cs.append(Contract(f'{K}.__hash__', native=nat('__hash__'), view={'self':ST},
    cases=[Case('wf', requires=f'wf_{name}(self)', ensures='True', source=S_EQ+" (hashing is total: every bitstruct value is hashable)")],
    modifies=[], returns=IntT(), property_ids=props))
  for m in ('clone','__deepcopy__'):
    view={'self':ST} if m=='clone' else {'self':ST,'memo':NoneT()}
    cs.append(Contract(f'{K}.{m}', native=nat(m), view=view,
      cases=[Case('wf', requires=f'wf_{name}(self)', ensures=f'wf_{name}(result) and pack_{name}(result) == pack_{name}(self) and allfresh_{name}(result) and noshare_{name}(result, self)', source=S_EQ+' / copy independence')],
      modifies=[], returns=ST, property_ids=props))
  cs.append(Contract(f'{K}.__imatmul__', native=nat('__imatmul__'), view={'self':ST,'other':ST},
    cases=[Case('same-class', requires=f'wf_{name}(self) and wf_{name}(other)', ensures=f'same(result, self) and wf_{name}(self) and pack_{name}(self) == old(pack_{name}(other)) and noshare_{name}(self, other)', source=S_CP)],
    modifies=[f'self.{p}._uint' for p,w in lv], returns='self', property_ids=props))
  cs.append(Contract(f'{K}.__ilshift__', native=nat('__ilshift__'), view={'self':OneOf(ST,STn),'other':ST},
    cases=[Case('same-class', requires=f'wf_{name}(self) and wf_{name}(other)', ensures=f'same(result, self) and next_{name}(self) == old(pack_{name}(other)) and noshare_{name}(self, other)', source=S_CP+" / C07: '<<=' is invisible until the edge")],
    modifies=[f'self.{p}._next' for p,w in lv], returns='self', property_ids=props+('C07',)))
  cs.append(Contract(f'{K}._flip', native=nat('_flip'), view={'self':STn},
    cases=[Case('any', requires='True', ensures=f'pack_{name}(self) == old(next_{name}(self))', source="C07: at the edge all registers take the value last assigned with <<=")],
    modifies=[f'self.{p}._uint' for p,w in lv], returns=None, property_ids=props+('C07',)))
  # constructor: contract used by from_bits / clone (arguments are Bits / lists / nested structs already built)
  fields=shapes[name].fields
  def argt(ft):
    if ft[0]=='bits': return OneOf(BitsT,IntT())
    if ft[0]=='list': return OneOf(ListT(ft,shapes),NoneT())
    return OneOf(StructT(ft[1],shapes),NoneT())
  selfname='s' if all(fn!='s' for fn,_ in fields) else '__bitstruct_self__'
  view={selfname:ObjT(name,[])}; view.update({fn:argt(ft) for fn,ft in fields})
  ens=[]; req=[]
  for fn,ft in fields:
    if ft[0]=='bits':
      w=ft[1]
      ens.append(f"{selfname}.{fn}._nbits == {w} and valid({selfname}.{fn}) and {selfname}.{fn}._uint == modp(ival({fn}), {w}) and fresh({selfname}.{fn})")
      req.append(f"okarg({fn}, {w})")
    else:
      ens.append(f"same({selfname}.{fn}, {fn})")
  def ctor_effect(ex,env,st,case):
    selfv=env[selfname]
    for fn,ft in fields:
      if ft[0]=='bits':
        r=st.alloc('Bits'); st.heap[(r.id,'_nbits')]=I(ft[1]); st.heap[(r.id,'_uint')]=I(st.fresh_int(f'new.{fn}'))
        st.heap[(selfv.id,fn)]=r
      elif env[fn] is NONE or type(env[fn]).__name__=='NoneV':
        st.heap[(selfv.id,fn)]=StructT('',shapes)._mk(ft,f'new.{fn}',st,True)      # default: a fresh tree (values fixed by the postcondition)
      else: st.heap[(selfv.id,fn)]=env[fn]
  nonbits=[fn for fn,ft in fields if ft[0]!='bits']
  lay=layout(T,shapes,'',W)
  top_bits=" + ".join(f"modp(ival({fn}), {ft[1]}) * {2**[lo for p_,lo,w_ in lay if p_==fn][0]}" for fn,ft in fields if ft[0]=='bits') or "0"
  ens_bits=[e for e,(fn,ft) in zip(ens,fields) if ft[0]=='bits']
  cases=[Case('given', requires=' and '.join(req) if req else 'True', ensures=' and '.join(ens), when={fn:type_label(ListT(ft,shapes) if ft[0]=='list' else StructT(ft[1],shapes)) for fn,ft in fields if ft[0]!='bits'},
              source="code-derived constructor contract: Bits fields are copied into fresh objects of the declared width, list/struct arguments are stored as given")]
  if nonbits:
    cases.append(Case('defaults', requires=' and '.join(req) if req else 'True', when={fn:'none' for fn in nonbits},
      ensures=' and '.join(ens_bits+[f"wf_{name}({selfname})",f"allfresh_{name}({selfname})",f"pack_{name}({selfname}) == {top_bits}"]),
      source=S_CP+": a default-constructed value is a tree of pairwise distinct zero leaves (rows of a list field are not one shared object), so a later field-by-field copy cannot alias"))
  cs.append(Contract(f'{K}.__init__', view=view, call_effect=ctor_effect, sample=False,
    cases=cases,
    modifies=[f'{selfname}.{fn}' for fn,_ in fields], returns=None, property_ids=props))
  return cs

class ClsT(SpecType):
  def __init__(s,name): s.name=name; s.tag='class:'+name
  def make(s,vname,st,fresh): return Cls(s.name)
  def build_native(s,vname,model,repo,reg): return None     # classmethods are called through the class (see runtime hook)
  def sample(s,rng,n,repo,reg): return None
class ListT(SpecType):
  tag='list'
  def __init__(s,T,shapes): s.T=T; s.shapes=shapes
  def make(s,vname,st,fresh): return StructT('',s.shapes)._mk(s.T,vname,st,fresh)

def _okarg_sym(ex,args,st):
  v,w=args; w=as_int(w)
  if isinstance(v,Ref): return B(z3.And(as_int(st.heap[(v.id,'_nbits')])==w, as_int(st.heap[(v.id,'_uint')])>=0, as_int(st.heap[(v.id,'_uint')])<st.th.pow2(w)))
  x=as_int(v); return B(z3.And(x>=-st.th.pow2(w-1), x<=st.th.pow2(w)-1))
register_spec_fun('okarg',_okarg_sym,lambda v,w: (v._nbits==w and 0<=v._uint<2**w) if not isinstance(v,int) else -(2**(w-1))<=v<=2**w-1)

def register_shapes(reg,shapes,props=('C06',)):
  built=build(reg.repo,shapes)
  gm=reg.modules.get(GEN)
  if gm is None: gm=GenModule(GEN); reg.modules[GEN]=gm
  for name in shapes:
    info=built[name]
    methods={};
    for fn_name,src,globs in info['sources']:
      g={}
      for k,v in globs.items():
        if getattr(v,'__name__','')=='concat': g[k]=Fn('concat')
        elif isinstance(v,type) and hasattr(v,'nbits') and not hasattr(v,'__bitstruct_fields__'): g[k]=ClsN('Bits',z3.IntVal(v.nbits))
        elif isinstance(v,type): g[k]=Cls(v.__name__.replace('__vc',''))
      gm.add(f'{name}.{fn_name}',src,g)
      methods[fn_name]=gm.functions[f'{name}.{fn_name}']
    T=('struct',name)
    reg.gen_classes[name]=dict(file=GEN,methods=methods,attrs={'nbits':I(width(T,shapes))},classmethods={'from_bits'})
    reg.declare_class(name,None)
    runtime.NATIVE_CLASS_TAGS[name+'__vc']=name
    register_shape_funs(name,shapes)
    for c in shape_contracts(name,shapes,props): reg.add(c)
