"""C08: which members of a net get an explicit copy in the generated net block - a region of GenDAGPass._generate_net_blocks (from
`readers = []` up to `fanout = len(readers)`), extracted by statement text.

In simulation the top-level signals of a net share one value object (PrepareSimPass.lock_in_simulation: the 'residence'), so only members
that are not top-level signals (slices, struct fields) - and, when the writer itself is not a top-level signal or constant, one top-level
member as the residence - must be copied from the writer.  Proved: `readers` is exactly that selection, for every net."""
from pyvc.contracts import Contract, Case, Loop
from pyvc.symcoll import ObjK, SetOf, declare_pure_method

F='pymtl3/passes/sim/GenDAGPass.py'
Sig=ObjK('Sig')

def contracts():
  declare_pure_method('is_top_level_signal',1,'bool'); declare_pure_method('is_const_cls',1,'bool')
  NONTOP="forall(x, implies(x in elems(all_readers) and not is_top_level_signal(x), x in elems(readers)))"
  ONLY="forall(x, implies(x in elems(readers), x in elems(all_readers)))"
  return [Contract(f'{F}::GenDAGPass._generate_net_blocks@readers', region=('readers = []','fanout = len(readers)'),
    view={'writer':Sig,'all_readers':SetListT()},
    cases=[Case('any', requires='True',
      ensures=NONTOP+" and "+ONLY+" and "
              "implies(is_const_cls(writer) or is_top_level_signal(writer), forall(x, implies(x in elems(readers), not is_top_level_signal(x)))) and "
              "implies(not (is_const_cls(writer) or is_top_level_signal(writer)), "
              "  forall(x, y, implies(x in elems(readers) and y in elems(readers) and is_top_level_signal(x) and is_top_level_signal(y), x == y)) and "
              "  implies(exists(x, x in elems(all_readers) and is_top_level_signal(x)), exists(x, x in elems(readers) and is_top_level_signal(x))))",
      source="C08: 'in simulation every member of a net carries the writer's value': every member that does not share the net's value object (a slice or struct field) is copied from the writer by the "
             "net block; when the writer is itself a slice / field, exactly one top-level member is copied too (the others share its object)")],
    loops={'for x in all_readers#1':Loop(invariant=["forall(x, implies(x in seen and not is_top_level_signal(x), x in elems(readers)))",
                                                     "forall(x, implies(x in elems(readers), x in seen and not is_top_level_signal(x)))"], modifies=['readers']),
           'for x in all_readers#2':Loop(invariant=["forall(x, implies(x in seen and not is_top_level_signal(x), x in elems(readers)))",
                                                     "forall(x, implies(x in elems(readers), x in seen))",
                                                     "forall(x, y, implies(x in elems(readers) and y in elems(readers) and is_top_level_signal(x) and is_top_level_signal(y), x == y))",
                                                     "(residence is None) == (not exists(x, x in seen and is_top_level_signal(x)))",
                                                     "implies(not (residence is None), residence in elems(readers) and is_top_level_signal(residence))",
                                                     "forall(x, implies(x in elems(readers) and is_top_level_signal(x), x == residence))"], modifies=['readers'])},
    abstract_lists={'readers':'set'}, list_elems={'readers':Sig},
    pure_methods={'is_top_level_signal':1}, class_predicates={'Const':'is_const_cls','issubclass:Bits':'type_is_bits'}, opaque_attrs=True,
    modifies=[], returns=None, property_ids=('C08',), sample=False,
    note="region of the function, extracted by statement text; is_top_level_signal and the class Const are pure functions / predicates of the objects; all_readers (a list) is abstracted by its element set")]

from pyvc.symexec import SpecType
class SetListT(SpecType):
  tag='setlist'
  def make(s,name,st,fresh):
    import z3
    from pyvc.symcoll import new_setlist, SetSort
    return new_setlist(st,z3.Const(name+'.elems',SetSort),Sig)

def register(reg):
  from . import watched       # declares type_is_bits
  for c in contracts(): reg.add(c)
