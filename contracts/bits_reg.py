import time
from . import bits, slices, cksum
import z3
from pyvc.values import ClsN
from pyvc import runtime
runtime.NATIVE_CLASS_TAGS['Bits']='Bits'

def register(reg):
  reg.declare_class('Bits', bits.F, slots=['_nbits','_uint','_next'])
  reg.module_globals[bits.F]=bits.module_globals
  for c in bits.contracts()+bits.contracts2()+slices.contracts(): reg.add(c)
  reg.module_globals[slices.H]={'b1':ClsN('Bits',z3.IntVal(1))}
  for c in cksum.contracts(): reg.add(c)
  reg.module_globals.update(cksum.module_globals())
  import os
  register_bitstructs(reg,os.environ.get('VERIF_TIER','quick'),int(os.environ.get('VERIF_SEED','0') or 0))

def extra_checks(prop,tier,seed,repo,reg,known):
  """module-level tables: complete concrete execution of the real defining statements."""
  from pyvc.tables import verify_tables
  t0=time.time()
  obls=verify_tables(reg,bits.F,bits.TABLES)
  return [dict(key=f'{bits.F}::<module>',ok=True,obligations=obls,time=time.time()-t0,kind='pyvc-concrete',lines=None,ast_hash=None,info=None)]

def extra_checks_c05(prop,tier,seed,repo,reg,known):
  return []

def register_bitstructs(reg,tier='quick',seed=0):
  from . import bitstruct
  shapes=bitstruct.core_shapes()
  if tier!='quick': shapes.update(bitstruct.extra_shapes(seed,60))
  bitstruct.register_shapes(reg,shapes)
