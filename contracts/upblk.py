"""C09: ComponentLevel2._check_upblk_writes (the elaboration check that rejects a signal driven by two update blocks - directly, through a
nested field / slice and its ancestor, or through overlapping sibling slices) under contract.

Signal structure is abstract: is_signal / get_parent_object / get_sibling_slices / slice_overlap are pure uninterpreted functions of the
objects (an assumption listed in the evidence; their own meaning is the subject of Connectable._overlap's contract and the zoo);
anc(x, k) is the k-th parent.  The position in the parent chain is the ghost counter g_j."""
import z3
from pyvc.contracts import Contract, Case, Loop
from pyvc.symexec import IntT, register_spec_fun, as_int
from pyvc.values import I, B, Opq
from pyvc.symcoll import ObjK, SetOf, DictOf, CompT, Obj, to_obj, declare_pure_method

F='pymtl3/dsl/ComponentLevel2.py'
Blk=ObjK('Blk'); Sig=ObjK('Sig')
PAR=declare_pure_method('get_parent_object',1,'obj')
declare_pure_method('is_signal',1,'bool'); declare_pure_method('get_sibling_slices',1,'set'); declare_pure_method('slice_overlap',2,'bool')
ANC=z3.Function('anc',Obj,z3.IntSort(),Obj)
register_spec_fun('anc',lambda ex,a,st: Opq(ANC(to_obj(a[0],st),as_int(a[1])),'obj'),lambda x,k: None)

def ghost_init(ex,st):
  x=z3.Const('x!anc',Obj); k=z3.Int('k!anc')
  st.pc.append(z3.ForAll([x],ANC(x,0)==x,patterns=[ANC(x,0)]))
  st.pc.append(z3.ForAll([x,k],z3.Implies(k>=0,ANC(x,k+1)==PAR(ANC(x,k))),patterns=[ANC(x,k+1)]))
  st.pc.append(z3.ForAll([x,k],z3.Implies(k>=1,ANC(x,k)==PAR(ANC(x,k-1))),patterns=[ANC(x,k)]))
  st.env['g_j']=I(z3.IntVal(0))
def h_start(ex,st): st.env['g_j']=I(z3.IntVal(0))
def h_up(ex,st): st.env['g_j']=I(as_int(st.env['g_j'])+1)

AUW='s._dsl.all_upblk_writes'
DOMWU="forall(w, (w in dom(write_upblks)) == (at(write_upblks, w) != emptyset()))"
CHAIN=lambda w,i: f"forall_int(j, implies(0 <= j and j <= {i}, is_signal(anc({w}, j))))"
WU_DONE=f"forall(w, b, (b in at(write_upblks, w)) == (b in dom({AUW}) and w in at({AUW}, b)))"
ONE ="forall(w, a, b, implies(w in seen and a in at(write_upblks, w) and b in at(write_upblks, w), a == b))"
ANCS="forall(w, implies(w in seen, forall_int(i, implies(i >= 1 and "+CHAIN('w','i')+" and anc(w, i) in dom(write_upblks), not disjoint(at(write_upblks, anc(w, i)), at(write_upblks, w))))))"
SIBS="forall(w, y, implies(w in seen and y in get_sibling_slices(w) and slice_overlap(y, w) and y in dom(write_upblks), not disjoint(at(write_upblks, y), at(write_upblks, w))))"

# ---- native side: mock signal trees (the function only uses the four structure methods, `in`, and names for the message)
class _MComp:
  def is_signal(s): return False
  def get_parent_object(s): return None
  def __repr__(s): return 's'
class _MSig:
  def __init__(s,name,parent,rng=None): s.name=name; s.parent=parent; s.rng=rng; s.kids=[]
  def is_signal(s): return True
  def get_parent_object(s): return s.parent
  def get_sibling_slices(s):
    return [k for k in s.parent.kids if k is not s and k.rng is not None] if (s.rng is not None and isinstance(s.parent,_MSig)) else []
  def slice_overlap(s,o): return s.rng is not None and o.rng is not None and max(s.rng[0],o.rng[0])<min(s.rng[1],o.rng[1])
  def __repr__(s): return s.name
def _build(spec):
  import types
  top=_MComp(); sigs=[]
  for name,pi,lo,hi in spec['signals']:
    par=top if pi<0 else sigs[pi]; x=_MSig(name,par,None if lo is None else (lo,hi)); sigs.append(x)
    if isinstance(par,_MSig): par.kids.append(x)
  blks={}
  def mk(n):
    def f(): pass
    f.__name__=n; return f
  w={}; host={}
  for bn,ixs in spec['writes'].items():
    b=blks.setdefault(bn,mk(bn)); w[b]=set(sigs[i] for i in ixs); host[b]=top
  return {'s':types.SimpleNamespace(_dsl=types.SimpleNamespace(all_upblk_writes=w,all_upblk_hostobj=host),__spec__=spec)}
def _sample(rng,n,variant,repo,reg):
  sigs=[]; k=rng.choice([1,2,3,4,6])
  for i in range(k):
    sigs.append([f"s.w{i}",-1,None,None])
    base=len(sigs)-1
    if rng.random()<0.6:       # fields (two levels)
      for f in range(rng.choice([1,2])):
        sigs.append([f"s.w{i}.f{f}",base,None,None]); fb=len(sigs)-1
        if rng.random()<0.4: sigs.append([f"s.w{i}.f{f}.g",fb,None,None])
    if rng.random()<0.6:       # slices
      for _ in range(rng.choice([1,2,3])):
        lo=rng.randrange(0,7); hi=rng.randrange(lo+1,9); sigs.append([f"s.w{i}[{lo}:{hi}]",base,lo,hi])
  nb=rng.choice([1,2,3]); writes={}
  for b in range(nb):
    writes[f"up{b}"]=sorted(set(rng.randrange(len(sigs)) for _ in range(rng.choice([1,2,3]))))
  if rng.random()<0.5:         # make conflicts rarer: every signal tree written by one block only
    owner={}
    for bn in writes:
      keep=[]
      for i in writes[bn]:
        root=i
        while sigs[root][1]>=0: root=sigs[root][1]
        if owner.setdefault(root,bn)==bn: keep.append(i)
      writes[bn]=keep
  return _build({'signals':sigs,'writes':writes})
from pyvc import runtime as _rt
def _anc_nat(x,k):
  for _ in range(max(k,0)):
    x=x.get_parent_object() if x is not None and hasattr(x,'get_parent_object') else None
  return x
_rt.NATIVE.update(is_signal=lambda x: bool(x is not None and hasattr(x,'is_signal') and x.is_signal()), get_parent_object=lambda x: x.get_parent_object(),
                  get_sibling_slices=lambda x: set(x.get_sibling_slices()) if hasattr(x,'get_sibling_slices') else set(),
                  slice_overlap=lambda y,w: hasattr(y,'slice_overlap') and y.slice_overlap(w), anc=_anc_nat)

def contracts():
  TopT=CompT('Component',{'_dsl.all_upblk_writes':DictOf(Blk,SetOf(Sig)),'_dsl.all_upblk_hostobj':DictOf(Blk,ObjK('Comp'))})
  return [Contract(f'{F}::ComponentLevel2._check_upblk_writes', view={'s':TopT},
    cases=[Case('any', requires='True', raises_or_ensures=True, raises='MultiWriterError',
      ensures=f"forall(w, a, b, implies(a in dom({AUW}) and b in dom({AUW}) and w in at({AUW}, a) and w in at({AUW}, b), a == b)) and "
              f"forall(w, a, b, implies(a in dom({AUW}) and b in dom({AUW}) and w in at({AUW}, a), forall_int(i, implies(i >= 1 and {CHAIN('w','i')} and anc(w, i) in at({AUW}, b), a == b)))) and "
              f"forall(w, y, a, b, implies(a in dom({AUW}) and b in dom({AUW}) and w in at({AUW}, a) and y in at({AUW}, b) and y in get_sibling_slices(w) and slice_overlap(y, w), a == b))",
      source="C09: 'A design in which some signal bit has two different drivers (update blocks ..., a struct field and its parent, overlapping slices) ... fails elaboration with the corresponding error': "
             "on normal return no signal, no signal and one of its ancestors (parent chain of signals), and no pair of overlapping sibling slices is written by two different update blocks; "
             "the only exception that may leave the function is MultiWriterError")],
    loops={f'in {AUW}.items()':Loop(invariant=[f"forall(w, b, (b in at(write_upblks, w)) == (b in seen and w in at({AUW}, b)))", DOMWU], modifies=['write_upblks']),
           'for wr in writes':Loop(invariant=[f"forall(w, b, (b in at(write_upblks, w)) == ((b in seen_outer and w in at({AUW}, b)) or (b == blk and w in seen)))", DOMWU,
                                              f"blk in dom({AUW}) and not (blk in seen_outer)"], modifies=['write_upblks']),
           'in write_upblks.items()':Loop(invariant=[ONE,ANCS,SIBS], modifies=[]),
           'while x.is_signal()':Loop(invariant=["g_j >= 0 and x == anc(obj, g_j)",
                "forall_int(i, implies(0 <= i and i < g_j, is_signal(anc(obj, i)) and implies(i >= 1 and anc(obj, i) in dom(write_upblks), not disjoint(at(write_upblks, anc(obj, i)), at(write_upblks, obj)))))"],
                modifies=[], ghost=['g_j']),
           'in obj.get_sibling_slices()':Loop(invariant=["forall(y, implies(y in seen and slice_overlap(y, obj) and y in dom(write_upblks), not disjoint(at(write_upblks, y), at(write_upblks, obj))))"], modifies=[])},
    ghost_init=ghost_init, ghost_hooks={'x = obj':h_start,'x = x.get_parent_object()':h_up},
    pure_methods={'is_signal':1,'get_parent_object':1,'get_sibling_slices':1,'slice_overlap':2},
    modifies=[], returns=None, property_ids=('C09',), sample=_sample, json_args=(lambda a: a['s'].__spec__, _build),
    note="is_signal / get_parent_object / get_sibling_slices / slice_overlap are pure functions of the signal objects (assumption); building the error message does not fail (assumption)")]

def register(reg):
  reg.declare_class('MultiWriterError',None,bases=('Exception',),exception=True)
  for c in contracts(): reg.add(c)
