"""C08/C09: ComponentLevel3._floodfill_nets (the function that groups connected signals into nets) under contract.

The list `nets` (a list of sets, append-only) is represented as the set-valued dict {root: net} keyed by the loop variable `obj` at the
time of the append; the work list Q (a stack that may hold an element more than once) is abstracted by the set of elements that occur
and the set of elements that may occur more than once, with pop() returning an arbitrary element - so the proof covers every order.
Connectivity of a net is stated through ghost functions: every member other than the root has a ghost parent in the same net that it is
adjacent to, with strictly smaller ghost rank (a well-founded parent chain to the root = a path in the connection graph)."""
import z3
from pyvc.contracts import Contract, Case, Loop
from pyvc.symexec import IntT, register_spec_fun
from pyvc.values import I, B, Opq, Val
from pyvc.symcoll import ObjK, SetOf, DictOf, Obj, SetSort, EMPTY, SetV, to_obj

F='pymtl3/dsl/ComponentLevel3.py'
Sig=ObjK('Sig')
class GArr(Val):
  def __init__(s,arr): s.arr=arr

def _mk(nm,conv):
  def f(ex,a,st): return conv(z3.Select(st.env[nm].arr,to_obj(a[0],st)))
  return f
register_spec_fun('npar',_mk('g_par',lambda t: Opq(t,'Sig')),lambda x: None)
register_spec_fun('nrank',_mk('g_rank',lambda t: I(t)),lambda x: 0)
register_spec_fun('nroot',_mk('g_root',lambda t: Opq(t,'Sig')),lambda x: None)

def ghost_init(ex,st):
  st.env['g_par']=GArr(z3.K(Obj,Obj.none)); st.env['g_rank']=GArr(z3.K(Obj,z3.IntVal(0))); st.env['g_root']=GArr(z3.K(Obj,Obj.none))

def h_visit(ex,st):
  """after `u = Q.pop()`: the first time u is taken from the work list it gets its ghost parent (the block that
  pushed it), ghost rank (parent's rank + 1; 0 for the root) and ghost root (the signal the flood fill of this net started from)."""
  u=to_obj(st.env['u'],st); obj=to_obj(st.env['obj'],st)
  net=st.heap[(st.env['net'].id,'arr')]; pred=st.env['pred']; pv=st.heap[(pred.id,'val')]
  first=z3.Not(z3.Select(net,u)); isroot=(u==obj)
  P=st.env['g_par'].arr; R=st.env['g_rank'].arr; T=st.env['g_root'].arr
  par=z3.If(isroot,Obj.none,z3.Select(pv,u)); rank=z3.If(isroot,z3.IntVal(0),z3.Select(R,z3.Select(pv,u))+1)
  st.env['g_par']=GArr(z3.If(first,z3.Store(P,u,par),P)); st.env['g_rank']=GArr(z3.If(first,z3.Store(R,u,rank),R)); st.env['g_root']=GArr(z3.If(first,z3.Store(T,u,obj),T))

SYM="forall(a, b, implies(b in at(adjacency, a), a in at(adjacency, b)))"
# facts about the nets already finished (they live in the part of `visited` that is not the net under construction)
def done(old):
  """old(m): m belongs to an earlier component.  For the outer loop old(m) = m in visited."""
  return [
    f"forall(m, v, implies({old('m')} and v in at(adjacency, m), {old('v')}))",                                   # finished part closed under adjacency
    f"forall(m, implies({old('m')}, m in dom(adjacency)))",
    f"forall(r, m, implies(r in dom(nets) and m in at(nets, r), {old('m')} and nroot(m) == r))",                  # members, root map (=> disjoint)
    "forall(r, implies(r in dom(nets), r in at(nets, r)))",
    "forall(r, m, v, implies(r in dom(nets) and m in at(nets, r) and v in at(adjacency, m), v in at(nets, r)))",  # each net closed
    "forall(r, m, implies(r in dom(nets) and m in at(nets, r) and m != r, npar(m) in at(nets, r) and m in at(adjacency, npar(m)) and nrank(npar(m)) < nrank(m)))",  # each net connected
    f"forall(m, implies({old('m')}, at(adjacency, m) == emptyset() or (nroot(m) in dom(nets) and m in at(nets, nroot(m)))))",   # coverage
    "forall(r, implies(r in dom(nets), card(at(nets, r)) >= 2))",
  ]
OUTER=[SYM]+done(lambda x: f"{x} in visited")+["forall(o, implies(o in seen and o in dom(adjacency), o in visited))", "subset(dom(pred), visited)"]
OLD=lambda x: f"({x} in visited and not ({x} in net))"
CUR=[ "subset(net, visited)", "obj in dom(adjacency) and (obj in net or not (obj in visited))",
      "subset(elems(Q), dom(adjacency)) and subset(dups(Q), elems(Q))",
      "forall(q, implies(q in elems(Q) and q in visited, q in net))",
      "forall(q, implies(q in elems(Q) and q != obj, q in dom(pred) and getv(pred, q) in net and q in at(adjacency, getv(pred, q)) and getv(pred, q) != q))",
      "forall(m, implies(m in net and m != obj, npar(m) in net and m in at(adjacency, npar(m)) and nrank(npar(m)) < nrank(m) and m in dom(pred) and getv(pred, m) == npar(m)))",
      "not (obj in dom(pred)) and forall(m, implies(m in dom(pred), m in visited or m in elems(Q)))",
      "forall(m, implies(m in net, nroot(m) == obj and m in dom(adjacency)))" ]
WHILE=[SYM]+done(OLD)+CUR+[
      "(net == emptyset() and obj in elems(Q) and forall(q, (q in elems(Q)) == (q == obj)) and dups(Q) == emptyset()) or (obj in net and not (obj in elems(Q)))",
      "forall(m, v, implies(m in net and v in at(adjacency, m), v in visited or v in elems(Q)))",
      "forall(m, implies(m in net, not (m in at(adjacency, m))))",
      "forall(o, implies(o in seen and o in dom(adjacency), o in visited))" ]
INNER=[SYM]+done(OLD)+CUR+[
      "obj in net and not (obj in elems(Q)) and u in net and u in dom(adjacency)",
      "forall(m, v, implies(m in net and v in at(adjacency, m), v in visited or v in elems(Q) or (m == u and not (v in seen))))",
      "forall(m, implies(m in net, not (m in at(adjacency, m)) or (m == u and not (m in seen))))",
      "forall(o, implies(o in seen_outer and o in dom(adjacency), o in visited))" ]

# ---- native side: sampler, result adaptor (list of sets -> {root: net} + ghost functions computed by an independent BFS), JSON form of inputs
def _sample(rng,n,variant,repo,reg):
  k=rng.choice([1,2,3,3,4,5,6,8]); nodes=[f"n{i}" for i in range(k)]
  adj={}
  def edge(a,b): adj.setdefault(a,set()).add(b); adj.setdefault(b,set()).add(a)
  mode=rng.choice(['forest','forest','forest','random','selfloop','empty-entry'])
  if mode=='forest':
    for i in range(1,k):
      if rng.random()<0.7: edge(nodes[i],nodes[rng.randrange(0,i)])
  elif mode=='random':
    for i in range(k):
      for j in range(i+1,k):
        if rng.random()<0.3: edge(nodes[i],nodes[j])
  elif mode=='selfloop':
    for i in range(1,k):
      if rng.random()<0.5: edge(nodes[i],nodes[rng.randrange(0,i)])
    x=rng.choice(nodes); edge(x,x)
  else:
    for i in range(1,k):
      if rng.random()<0.5: edge(nodes[i],nodes[rng.randrange(0,i)])
    adj.setdefault(rng.choice(nodes),set())
  sl=set(x for x in nodes if rng.random()<0.9)
  return {'signal_list':sl,'adjacency':adj}
def _standin_inputs(repo,reg):
  """every symmetric graph (self loops included) on at most 3 nodes, every subset as signal_list: 2^6 * 2^3 + ... inputs"""
  import itertools
  for k in (1,2,3):
    nodes=[f"n{i}" for i in range(k)]; pairs=[(a,b) for i,a in enumerate(nodes) for b in nodes[i:]]
    for mask in range(1<<len(pairs)):
      adj={}
      for i,(a,b) in enumerate(pairs):
        if mask>>i&1: adj.setdefault(a,set()).add(b); adj.setdefault(b,set()).add(a)
      yield {'signal_list':set(nodes),'adjacency':adj}
def _native_post(args,result):
  adj=args['adjacency']; res={}; par={}; rank={}; root={}
  if not isinstance(result,list): return result,{}
  for net in result:
    r=min(net,key=repr) if net else None
    k=r; i=0
    while k in res: i+=1; k=(r,i)          # two nets with the same representative stay two entries
    res[k]=set(net)
    par[r]=None; rank[r]=0; todo=[r]; seen={r}
    while todo:
      u=todo.pop(0)
      for v in adj.get(u,()):
        if v in net and v not in seen: seen.add(v); par[v]=u; rank[v]=rank[u]+1; todo.append(v)
    for m in net: root.setdefault(m,k)
  return res,dict(npar=lambda x: par.get(x,'<no parent>'),nrank=lambda x: rank.get(x,0),nroot=lambda x: root.get(x,'<no root>'))
_to_json=lambda a: {'signal_list':sorted(a['signal_list']),'adjacency':{k:sorted(v) for k,v in a['adjacency'].items()}}
import sys as _sys
_I=_sys.intern            # the function compares nodes with `is`: one object per node name
_from_json=lambda j: {'signal_list':set(_I(x) for x in j['signal_list']),'adjacency':{_I(k):set(_I(x) for x in v) for k,v in j['adjacency'].items()}}

def contracts():
  return [Contract(f'{F}::ComponentLevel3._floodfill_nets', view={'signal_list':SetOf(Sig),'adjacency':DictOf(Sig,SetOf(Sig))},
    cases=[Case('symmetric-graph', requires=SYM, raises_or_ensures=True, raises='InvalidConnectionError',
      ensures="forall(r, m, v, implies(r in dom(result) and m in at(result, r) and v in at(adjacency, m), v in at(result, r))) and "
              "forall(r, m, implies(r in dom(result) and m in at(result, r) and m != r, npar(m) in at(result, r) and m in at(adjacency, npar(m)) and nrank(npar(m)) < nrank(m))) and "
              "forall(r, implies(r in dom(result), r in at(result, r) and card(at(result, r)) >= 2)) and "
              "forall(r, m, implies(r in dom(result) and m in at(result, r), nroot(m) == r and m in dom(adjacency))) and "
              "forall(o, implies(o in signal_list and o in dom(adjacency) and at(adjacency, o) != emptyset(), nroot(o) in dom(result) and o in at(result, nroot(o))))",
      source="C08: 'elaboration groups signals into nets that are exactly the connected components of the connection graph': on normal return every net is closed "
             "under adjacency, connected (ghost parent chain to its root), nets are pairwise disjoint (one root per member), have at least two members, and every listed "
             "signal that has a neighbour is in a net; the only exception that may leave the function is InvalidConnectionError (C09: a connection loop is rejected with the corresponding error)")],
    loops={'in signal_list':Loop(invariant=OUTER, modifies=['visited','pred','nets'], ghost=['g_par','g_rank','g_root']),
           'while Q':Loop(invariant=WHILE, modifies=['visited','net','Q','pred'], ghost=['g_par','g_rank','g_root']),
           'in adjacency[u]':Loop(invariant=INNER, modifies=['Q','pred'], ghost=[])},
    ghost_init=ghost_init, ghost_hooks={'u = Q.pop()':h_visit}, abstract_lists={'nets':'keyed:obj','Q':'bag'},
    modifies=[], returns=None, property_ids=('C08','C09'), sample=_sample, native_post=_native_post, json_args=(_to_json,_from_json),
    note="adjacency is symmetric (every connect adds both directions); nets = [] is represented as {root: net}; Q as a bag; connectivity through ghost parent/rank functions")]

def register(reg):
  reg.declare_class('InvalidConnectionError',None,bases=('Exception',),exception=True)
  for c in contracts(): reg.add(c)
