"""C07/C01: the grouping step of SimpleSchedulePass.schedule_posedge_flip (which host object each double-buffered signal is flipped through),
a region of the function extracted by statement text: from `hostobj_signals = defaultdict(list)` up to `strs = []`.

Proved: when the grouping loop ends, every signal of the design that needs double buffering is in exactly one of the lists of
hostobj_signals, and the lists hold nothing else - the repeated re-grouping under parent objects neither loses nor duplicates a register.
(The text generated from the lists afterwards is checked by the bounded 'flip' stand-in.)  Ghost: g_h / g_n map a signal to the key of the
list that holds it in hostobj_signals / next_hostobj_signals."""
import z3
from pyvc.contracts import Contract, Case, Loop
from pyvc.symexec import register_spec_fun
from pyvc.values import Val, Opq, B
from pyvc.symcoll import ObjK, SetOf, CompT, Obj, to_obj, slot_arr, setval

F='pymtl3/passes/sim/SimpleSchedulePass.py'
Sig=ObjK('Sig')
class GArr(Val):
  def __init__(s,arr): s.arr=arr
register_spec_fun('gh',lambda ex,a,st: Opq(z3.Select(st.env['g_h'].arr,to_obj(a[0],st)),'obj'),lambda x: None)
register_spec_fun('gn',lambda ex,a,st: Opq(z3.Select(st.env['g_n'].arr,to_obj(a[0],st)),'obj'),lambda x: None)
_A1=z3.Function('attr__dsl',Obj,Obj); _A2=z3.Function('attr_needs_double_buffer',Obj,Obj); _T=z3.Function('opq_truthy',Obj,z3.BoolSort())
register_spec_fun('needs_db',lambda ex,a,st: B(_T(_A2(_A1(to_obj(a[0],st))))),lambda x: bool(x._dsl.needs_double_buffer))

def ghost_init(ex,st):
  st.env['g_h']=GArr(z3.K(Obj,Obj.none)); st.env['g_n']=GArr(z3.K(Obj,Obj.none))
def h_first(ex,st):
  x=to_obj(st.env['x'],st); host=ex_host(st,x)
  st.env['g_h']=GArr(z3.Store(st.env['g_h'].arr,x,host))
def ex_host(st,x): return z3.Function('pm_get_host_component',Obj,Obj)(x)
def h_move(ex,st):
  # every member of the list y now lives in next_hostobj_signals[x] (x: the key after a possible re-binding to the parent object)
  y=setval(st.env['y'],st)[0]; x=to_obj(st.env['x'],st); G=st.env['g_n'].arr; s_=z3.Const('s!mv',Obj)
  st.env['g_n']=GArr(z3.Lambda([s_],z3.If(z3.Select(y,s_),x,z3.Select(G,s_))))
def h_swap(ex,st): st.env['g_h']=GArr(st.env['g_n'].arr)

DB="(sig in top._dsl.all_signals and needs_db(sig))"
def COV(D,g): return f"forall(sig, implies({DB}, {g}(sig) in dom({D}) and sig in at({D}, {g}(sig))))"
def EXCL(D,g): return f"forall(h, sig, implies(sig in at({D}, h), {DB} and {g}(sig) == h))"
def NE(D): return f"forall(h, implies(h in dom({D}), at({D}, h) != emptyset()))"

def contracts():
  from pyvc.symcoll import declare_pure_method
  declare_pure_method('get_host_component',1,'obj')
  TopT=CompT('Component',{'_dsl.all_signals':SetOf(Sig)})
  return [Contract(f'{F}::SimpleSchedulePass.schedule_posedge_flip@grouping', region=('hostobj_signals = defaultdict(list)','strs = []'),
    view={'top':TopT},
    cases=[Case('any', requires='True', ensures=COV('hostobj_signals','gh')+' and '+EXCL('hostobj_signals','gh'),
      source="C07: 'all registers change together' / C01 ('a register not flipped keeps stale values under every pass group'): after the re-grouping of the double-buffered signals under common "
             "host objects, every signal that needs double buffering is in exactly one list of hostobj_signals and the lists contain nothing else")],
    loops={'in reversed(sorted(top._dsl.all_signals':Loop(invariant=[
              "forall(sig, implies(sig in seen and needs_db(sig), gh(sig) in dom(hostobj_signals) and sig in at(hostobj_signals, gh(sig))))",
              "forall(h, sig, implies(sig in at(hostobj_signals, h), sig in seen and needs_db(sig) and gh(sig) == h))", NE('hostobj_signals')],
              modifies=['hostobj_signals'], ghost=['g_h']),
           'while not done':Loop(invariant=[COV('hostobj_signals','gh'),EXCL('hostobj_signals','gh'),NE('hostobj_signals')], modifies=[], ghost=['g_h','g_n']),
           'in hostobj_signals.items()':Loop(invariant=[
              "forall(h, sig, implies(h in seen and sig in at(hostobj_signals, h), gn(sig) in dom(next_hostobj_signals) and sig in at(next_hostobj_signals, gn(sig))))",
              f"forall(k, sig, implies(sig in at(next_hostobj_signals, k), {DB} and gn(sig) == k and gh(sig) in seen))", NE('next_hostobj_signals')],
              modifies=['next_hostobj_signals'], ghost=['g_n'])},
    ghost_init=ghost_init,
    ghost_hooks={'hostobj_signals[x.get_host_component()].append(x)':h_first,'next_hostobj_signals[x].extend(y)':h_move,'next_hostobj_signals[x].append(y[0])':h_move,
                 'hostobj_signals = next_hostobj_signals':h_swap},
    pure_methods={'get_host_component':1,'get_parent_object':1}, opaque_attrs=True,
    modifies=[], returns=None, property_ids=('C07','C01'), sample=False,
    note="region of the function, extracted by statement text; lists abstracted by their element sets (append / extend carry duplicate-freeness obligations); x._dsl.needs_double_buffer, "
         "get_host_component and get_parent_object are pure functions of the objects")]

def register(reg):
  from . import upblk
  for c in contracts(): reg.add(c)
