"""C15 (and parts of C08/C09): pymtl3/dsl component metadata functions."""
import ast, os
from pyvc.contracts import Contract, Case, Loop
from pyvc.symexec import IntT, register_spec_fun
from pyvc.symcoll import ObjK, PairOf, SetOf, DictOf, CompT

L={i:f'pymtl3/dsl/ComponentLevel{i}.py' for i in range(1,8)}
COMP='pymtl3/dsl/Component.py'
Blk=ObjK('Blk'); Sig=ObjK('Sig'); Cmp=ObjK('Comp'); Any=ObjK('obj')
Cons=SetOf(PairOf(IntT(),Blk))

TOP_FIELDS={'_dsl.all_upblks':SetOf(Blk),'_dsl.all_upblk_hostobj':DictOf(Blk,Cmp),'_dsl.all_U_U_constraints':SetOf(PairOf(Blk,Blk)),
  '_dsl.all_update_ff':SetOf(Blk),'_dsl.all_RD_U_constraints':DictOf(Sig,Cons,default='set'),'_dsl.all_WR_U_constraints':DictOf(Sig,Cons,default='set'),
  '_dsl.all_upblk_reads':DictOf(Blk,Any),'_dsl.all_upblk_writes':DictOf(Blk,Any),'_dsl.all_upblk_calls':DictOf(Blk,Any),
  '_dsl.all_update_once':SetOf(Blk),'_dsl.all_M_constraints':SetOf(PairOf(Any,Any)),'_dsl.all_adjacency':DictOf(Sig,SetOf(Sig),default='set')}
M_FIELDS={'_dsl.upblks':SetOf(Blk),'_dsl.U_U_constraints':SetOf(PairOf(Blk,Blk)),'_dsl.update_ff':SetOf(Blk),
  '_dsl.RD_U_constraints':DictOf(Sig,Cons,default='set'),'_dsl.WR_U_constraints':DictOf(Sig,Cons,default='set'),
  '_dsl.update_once':SetOf(Blk),'_dsl.M_constraints':SetOf(PairOf(Any,Any)),'_dsl.adjacency':DictOf(Sig,SetOf(Sig),default='set'),'_dsl.upblk_reads':DictOf(Blk,Any),'_dsl.upblk_writes':DictOf(Blk,Any)}
TopT=CompT('Component',TOP_FIELDS); MT=CompT('Component',M_FIELDS)

SRC="C15: 'nothing belonging to the removed component remains reachable from the top' / metadata equals that of a design built without it: every all_* collection loses exactly the removed component's contribution"
def level_facts():
  """per level: (requires, ensures clauses, modifies) of _uncollect_vars for the metadata that _collect_vars of that level adds."""
  keep=lambda d: f"dom(s._dsl.{d}) == old(dom(s._dsl.{d})) - m._dsl.upblks and forall(k, implies(k in dom(s._dsl.{d}), getv(s._dsl.{d},k) == old(getv(s._dsl.{d},k))))"
  return {
   1:dict(requires='subset(m._dsl.upblks, dom(s._dsl.all_upblk_hostobj))',
          ensures=['s._dsl.all_upblks == old(s._dsl.all_upblks) - m._dsl.upblks', keep('all_upblk_hostobj'),
                   's._dsl.all_U_U_constraints == old(s._dsl.all_U_U_constraints) - m._dsl.U_U_constraints'],
          modifies=['s._dsl.all_upblks','s._dsl.all_upblk_hostobj','s._dsl.all_U_U_constraints']),
   2:dict(requires='subset(m._dsl.upblks, dom(s._dsl.all_upblk_reads)) and subset(m._dsl.upblks, dom(s._dsl.all_upblk_writes)) and subset(m._dsl.upblks, dom(s._dsl.all_upblk_calls))',
          ensures=['s._dsl.all_update_ff == old(s._dsl.all_update_ff) - m._dsl.update_ff',
                   'forall(k, at(s._dsl.all_RD_U_constraints,k) == old(at(s._dsl.all_RD_U_constraints,k)) - at(m._dsl.RD_U_constraints,k))',
                   'forall(k, at(s._dsl.all_WR_U_constraints,k) == old(at(s._dsl.all_WR_U_constraints,k)) - at(m._dsl.WR_U_constraints,k))',
                   keep('all_upblk_reads'),keep('all_upblk_writes'),keep('all_upblk_calls')],
          modifies=['s._dsl.all_update_ff','s._dsl.all_RD_U_constraints','s._dsl.all_WR_U_constraints','s._dsl.all_upblk_reads','s._dsl.all_upblk_writes','s._dsl.all_upblk_calls']),
   4:dict(requires='True',
          ensures=['s._dsl.all_update_once == old(s._dsl.all_update_once) - m._dsl.update_once',
                   's._dsl.all_M_constraints == old(s._dsl.all_M_constraints) - m._dsl.M_constraints'],
          modifies=['s._dsl.all_update_once','s._dsl.all_M_constraints']),
  }

def defining_levels(repo):
  out=[]
  for i in range(1,8):
    p=os.path.join(repo,L[i])
    t=ast.parse(open(p).read())
    for n in ast.walk(t):
      if isinstance(n,ast.ClassDef) and n.name==f'ComponentLevel{i}':
        if any(isinstance(b,ast.FunctionDef) and b.name=='_uncollect_vars' for b in n.body): out.append(i)
  return out

def loops_for(level):
  hk=lambda d: [f"dom(s._dsl.{d}) == old(dom(s._dsl.{d})) - seen", f"forall(k, implies(k in dom(s._dsl.{d}), getv(s._dsl.{d},k) == old(getv(s._dsl.{d},k))))"]
  if level==1: return {'m._dsl.upblks':Loop(invariant=hk('all_upblk_hostobj'),modifies=['s._dsl.all_upblk_hostobj'])}
  if level==2:
    cons=lambda f: [f"forall(k, at(s._dsl.all_{f},k) == ((old(at(s._dsl.all_{f},k)) - at(m._dsl.{f},k)) if k in seen else old(at(s._dsl.all_{f},k))))"]
    return {'m._dsl.RD_U_constraints':Loop(invariant=cons('RD_U_constraints'),modifies=['s._dsl.all_RD_U_constraints']),
            'm._dsl.WR_U_constraints':Loop(invariant=cons('WR_U_constraints'),modifies=['s._dsl.all_WR_U_constraints']),
            'm._dsl.upblks':Loop(invariant=hk('all_upblk_reads')+hk('all_upblk_writes')+hk('all_upblk_calls'),modifies=['s._dsl.all_upblk_reads','s._dsl.all_upblk_writes','s._dsl.all_upblk_calls'])}
  return {}

def collect_contracts():
  """ComponentLevel1._collect_vars, the inverse of its _uncollect_vars (C15: adding a component contributes exactly its own metadata)."""
  return [Contract(f'{L[1]}::ComponentLevel1._collect_vars', view={'s':TopT,'m':MT},
    cases=[Case('component', requires='True',
      ensures="s._dsl.all_upblks == old(s._dsl.all_upblks) | m._dsl.upblks and "
              "dom(s._dsl.all_upblk_hostobj) == old(dom(s._dsl.all_upblk_hostobj)) | m._dsl.upblks and "
              "forall(k, implies(k in m._dsl.upblks, getv(s._dsl.all_upblk_hostobj, k) == ident(m))) and "
              "forall(k, implies(k in dom(s._dsl.all_upblk_hostobj) and not (k in m._dsl.upblks), getv(s._dsl.all_upblk_hostobj, k) == old(getv(s._dsl.all_upblk_hostobj, k)))) and "
              "s._dsl.all_U_U_constraints == old(s._dsl.all_U_U_constraints) | m._dsl.U_U_constraints",
      source="C15: 'all queryable design metadata ... equals ... that of a design constructed from scratch': collecting a component adds exactly its update blocks (hosted by it) and its U-U constraints")],
    modifies=['s._dsl.all_upblks','s._dsl.all_upblk_hostobj','s._dsl.all_U_U_constraints'], returns=None,
    loops={'in m._dsl.upblks':Loop(invariant=["dom(s._dsl.all_upblk_hostobj) == pre(dom(s._dsl.all_upblk_hostobj)) | seen",
              "forall(k, implies(k in seen, getv(s._dsl.all_upblk_hostobj, k) == ident(m)))",
              "forall(k, implies(k in dom(s._dsl.all_upblk_hostobj) and not (k in seen), getv(s._dsl.all_upblk_hostobj, k) == pre(getv(s._dsl.all_upblk_hostobj, k))))"],
              modifies=['s._dsl.all_upblk_hostobj'])},
    property_ids=('C15',), sample=False, note="only the level-1 part of _collect_vars (levels 2..4 call super() into the function-call closure of level 2, which is not under contract)")]

def collect_regions():
  """The own part of ComponentLevel3/4._collect_vars (the statement after the super() call, extracted as a region; the super() call into the
  level-2 function-call closure is dropped and stays outside the contract)."""
  S="C15: 'all queryable design metadata ... equals ... that of a design constructed from scratch': collecting a component adds exactly its own contribution and nothing else"
  return [
   Contract(f'{L[3]}::ComponentLevel3._collect_vars@own', region=('if isinstance(m, ComponentLevel3)',None), view={'s':TopT,'m':MT},
    cases=[Case('component', requires='True',
      ensures="forall(k, at(s._dsl.all_adjacency,k) == old(at(s._dsl.all_adjacency,k)) | at(m._dsl.adjacency,k))", source=S)],
    modifies=['s._dsl.all_adjacency'], returns=None,
    loops={'in m._dsl.adjacency.items()':Loop(invariant=["forall(k, at(s._dsl.all_adjacency,k) == ((pre(at(s._dsl.all_adjacency,k)) | at(m._dsl.adjacency,k)) if k in seen else pre(at(s._dsl.all_adjacency,k))))"],
             modifies=['s._dsl.all_adjacency'])},
    property_ids=('C15','C08'), sample=False, note="region: the `if isinstance(m, ComponentLevel3)` statement of _collect_vars; dropped: the preceding super()._collect_vars(m) call"),
   Contract(f'{L[2]}::ComponentLevel2._collect_vars@constraints', region=('s._dsl.all_update_ff |= m._dsl.update_ff','s._dsl.all_upblk_reads.update('), view={'s':TopT,'m':MT},
    cases=[Case('component', requires='True',
      ensures="s._dsl.all_update_ff == old(s._dsl.all_update_ff) | m._dsl.update_ff and "
              "forall(k, at(s._dsl.all_RD_U_constraints,k) == old(at(s._dsl.all_RD_U_constraints,k)) | at(m._dsl.RD_U_constraints,k)) and "
              "forall(k, at(s._dsl.all_WR_U_constraints,k) == old(at(s._dsl.all_WR_U_constraints,k)) | at(m._dsl.WR_U_constraints,k))", source=S)],
    modifies=['s._dsl.all_update_ff','s._dsl.all_RD_U_constraints','s._dsl.all_WR_U_constraints'], returns=None,
    loops={'in m._dsl.RD_U_constraints.items()':Loop(invariant=["forall(k, at(s._dsl.all_RD_U_constraints,k) == ((pre(at(s._dsl.all_RD_U_constraints,k)) | at(m._dsl.RD_U_constraints,k)) if k in seen else pre(at(s._dsl.all_RD_U_constraints,k))))"],
             modifies=['s._dsl.all_RD_U_constraints']),
           'in m._dsl.WR_U_constraints.items()':Loop(invariant=["forall(k, at(s._dsl.all_WR_U_constraints,k) == ((pre(at(s._dsl.all_WR_U_constraints,k)) | at(m._dsl.WR_U_constraints,k)) if k in seen else pre(at(s._dsl.all_WR_U_constraints,k))))"],
             modifies=['s._dsl.all_WR_U_constraints'])},
    property_ids=('C15',), sample=False, note="region inside `if isinstance(m, ComponentLevel2)`: the update_ff union and the two constraint loops of _collect_vars; dropped: the super() call before it and the read/write/call maps with the function-call closure after it"),
   Contract(f'{L[2]}::ComponentLevel2._collect_vars@rwmaps', region=('s._dsl.all_upblk_reads.update(','for blk, calls in m._dsl.upblk_calls.items()'), view={'s':TopT,'m':MT},
    cases=[Case('component', requires='True',
      ensures="dom(s._dsl.all_upblk_reads) == old(dom(s._dsl.all_upblk_reads)) | dom(m._dsl.upblk_reads) and forall(k, implies(k in dom(m._dsl.upblk_reads), getv(s._dsl.all_upblk_reads,k) == getv(m._dsl.upblk_reads,k))) and forall(k, implies(k in dom(s._dsl.all_upblk_reads) and not (k in dom(m._dsl.upblk_reads)), getv(s._dsl.all_upblk_reads,k) == old(getv(s._dsl.all_upblk_reads,k)))) and dom(s._dsl.all_upblk_writes) == old(dom(s._dsl.all_upblk_writes)) | dom(m._dsl.upblk_writes) and forall(k, implies(k in dom(m._dsl.upblk_writes), getv(s._dsl.all_upblk_writes,k) == getv(m._dsl.upblk_writes,k))) and forall(k, implies(k in dom(s._dsl.all_upblk_writes) and not (k in dom(m._dsl.upblk_writes)), getv(s._dsl.all_upblk_writes,k) == old(getv(s._dsl.all_upblk_writes,k))))", source=S)],
    modifies=['s._dsl.all_upblk_reads','s._dsl.all_upblk_writes'], returns=None,
    property_ids=('C15',), sample=False, note="region inside `if isinstance(m, ComponentLevel2)`: the two dict.update statements that merge the component's read / write maps; the later |= of function reads/writes inside the call closure is outside the region"),
   Contract(f'{L[4]}::ComponentLevel4._collect_vars@own', region=('if isinstance(m, ComponentLevel4)',None), view={'s':TopT,'m':MT},
    cases=[Case('component', requires='True',
      ensures="s._dsl.all_update_once == old(s._dsl.all_update_once) | m._dsl.update_once and s._dsl.all_M_constraints == old(s._dsl.all_M_constraints) | m._dsl.M_constraints", source=S)],
    modifies=['s._dsl.all_update_once','s._dsl.all_M_constraints'], returns=None,
    property_ids=('C15',), sample=False, note="region: the `if isinstance(m, ComponentLevel4)` statement of _collect_vars; dropped: the preceding super()._collect_vars(m) call")]

def contracts(repo):
  facts=level_facts(); defs=defining_levels(repo); top=max(defs) if defs else None
  cs=collect_contracts()+collect_regions()
  for lv in defs:
    levels=[l for l in facts if l<=lv]
    if lv==top: levels=list(facts)          # the most derived override answers for every level (nothing above it removes the rest)
    req=' and '.join(facts[l]['requires'] for l in levels)
    ens=' and '.join(c for l in levels for c in facts[l]['ensures'])
    mods=[x for l in levels for x in facts[l]['modifies']]
    cs.append(Contract(f'{L[lv]}::ComponentLevel{lv}._uncollect_vars', view={'s':TopT,'m':MT},
      cases=[Case('component', requires=req, ensures=ens, source=SRC)], modifies=mods, returns=None, loops=loops_for(lv), property_ids=('C15',), sample=False,
      note=f"levels answered for: {levels}"+(" (most derived override: Component._uncollect_vars resolves here)" if lv==top else '')))
  return cs

def overlap_contract():
  from pyvc.symexec import SliceT, NoneT, OneOf, register_spec_fun, as_int, is_intlike
  from pyvc.values import I, SliceV
  register_spec_fun('blo',lambda ex,a,st: a[0] if is_intlike(a[0]) else a[0].start, lambda v: v if isinstance(v,int) else v.start)
  register_spec_fun('bhi',lambda ex,a,st: I(as_int(a[0])+1) if is_intlike(a[0]) else a[0].stop, lambda v: v+1 if isinstance(v,int) else v.stop)
  T=OneOf(IntT(),SliceT(IntT(),IntT(),NoneT()))
  return Contract('pymtl3/dsl/Connectable.py::_overlap', view={'x':T,'y':T},
    cases=[Case('ranges', requires='blo(x) < bhi(x) and blo(y) < bhi(y)', ensures='result == (max(blo(x), blo(y)) < min(bhi(x), bhi(y)))',
                source="C02: 'a block that writes any bit of a signal runs before every block that reads an overlapping bit': two index/slice ranges overlap iff they share a bit")],
    modifies=[], returns=None, property_ids=('C02','C08','C09'))

def nbits_contracts():
  S="C10: 'an integer literal's inferred width is the least number of bits that holds it'"
  cs=[]
  def inputs(repo,reg):
    for v in range(0,70000): yield {'value':v}
    for k in range(16,1100):
      for d in (-1,0,1): yield {'value':2**k+d}
  for key in ('pymtl3/passes/rtlir/rtype/RTLIRDataType.py::_get_nbits_from_value',):
    cs.append(Contract(key, view={'value':IntT()},
      cases=[Case('non-negative', requires='value >= 0', ensures='result >= 1 and value < pow2(result) and (result == 1 or pow2(result - 1) <= value)', source=S)],
      modifies=[], returns=IntT(), property_ids=('C10',), standin_inputs=inputs,
      bounded="all values in [0, 70000) and 2^k+d for 16 <= k < 1100, |d| <= 1 (used only while the body is out of reach: floating point)",
      note="negative literals: the function implements ceil(log2(|v|)), which the statement does not define; not under contract"))
  return cs

def register(reg):
  reg.add(overlap_contract())
  for c in nbits_contracts(): reg.add(c)
  prev=None
  for i in range(1,8):
    reg.declare_class(f'ComponentLevel{i}',L[i],bases=((f'ComponentLevel{i-1}',) if i>1 else ()))
  reg.declare_class('Component',COMP,bases=('ComponentLevel7',))
  for c in contracts(reg.repo): reg.add(c)

def _ident(ex,a,st):
  from pyvc.values import Opq
  from pyvc.symcoll import to_obj
  return Opq(to_obj(a[0],st),'obj')
register_spec_fun('ident',_ident,lambda x: x)
