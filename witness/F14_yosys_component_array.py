"""Native witness for finding F14 (C13/C12): the Yosys backend instantiated element 0's module for every element of a list of same-class
components built with different parameters.  usage: F14_yosys_component_array.py yosys   (exit 1 = defect reproduced on REPO, default /repo)"""
import sys,os; sys.path.insert(0,os.environ.get('REPO','/repo'))
from pymtl3 import *
class Scale( Component ):
  def construct( s, nbits=8, offset=1, gain=3 ):
    s.in_ = InPort( mk_bits(nbits) ); s.out = OutPort( mk_bits(nbits) )
    @update
    def up_scale(): s.out @= s.in_ * gain + offset
class ArrTop( Component ):
  def construct( s ):
    s.in_ = InPort( Bits8 ); s.outs = [ OutPort( Bits8 ) for _ in range(4) ]
    s.incs = [ Scale( 8, i+1 ) for i in range(4) ]
    for i, m in enumerate( s.incs ):
      m.in_ //= s.in_; s.outs[i] //= m.out
be=sys.argv[1] if len(sys.argv)>1 else 'yosys'
if be=='yosys': from pymtl3.passes.backends.yosys import YosysTranslationPass as TP
else: from pymtl3.passes.backends.verilog import VerilogTranslationPass as TP
os.chdir('/tmp'); t=ArrTop(); t.elaborate(); t.set_metadata(TP.enable,True); t.apply(TP()); txt=open(t.get_metadata(TP.translated_filename)).read()
import re
print(re.findall(r'^module (\w+)',txt,re.M)); print(re.findall(r'^\s*(\w+)\s+(\w+)\s*\(\s*$',txt,re.M))
inst=dict((i,m) for m,i in re.findall(r'^\s*(\w+)\s+(\w+)\s*\(\s*$',txt,re.M) if m!='module')
bad=[(i,m) for i,m in inst.items() if i.startswith('incs__') and not m.endswith(f"offset_{int(i[6:])+1}__gain_3")]
print('wrong instantiations:',bad); sys.exit(1 if bad else 0)
