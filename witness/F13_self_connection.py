"""Native witness for finding F13 (C09): a signal connected to itself is a connection loop and must be rejected with
InvalidConnectionError; before commit 8b5fe28 elaboration died with a bare KeyError from _floodfill_nets.
exit 1 = defect reproduced on the tree given by REPO (default /repo), 0 = not reproduced."""
import sys, os
sys.path.insert(0, os.environ.get('REPO','/repo'))
from pymtl3 import *
from pymtl3.dsl.errors import InvalidConnectionError

class A( Component ):
  def construct( s ):
    s.a = Wire( Bits8 ); s.b = Wire( Bits8 )
    connect( s.a, s.a )
    connect( s.a, s.b )
    @update
    def up(): s.a @= 1

try:
  A().elaborate()
  print( "elaborated without error" ); sys.exit(1)
except InvalidConnectionError as e:
  print( "InvalidConnectionError:", e ); sys.exit(0)
except Exception as e:
  print( f"{type(e).__name__}: {e}  (expected InvalidConnectionError)" ); sys.exit(1)
