"""Native witness for finding F15 (C15): after replace_component the slices of the new child's ports that the parent's connections / update blocks
refer to were missing from the signal name set.  exit 1 = defect reproduced on REPO (default /repo)."""
import sys; import os; sys.path.insert(0,os.environ.get('REPO','/repo'))
from pymtl3 import *
from pymtl3.dsl.Connectable import Signal
class LeafA( Component ):
  def construct( s ):
    s.in_ = InPort( Bits8 ); s.out = OutPort( Bits8 )
    @update
    def up_leaf(): s.out @= s.in_ + 1
class LeafB( Component ):
  def construct( s ):
    s.in_ = InPort( Bits8 ); s.out = OutPort( Bits8 )
    @update
    def up_leaf(): s.out @= s.in_ + 2
class Top( Component ):
  def construct( s, L ):
    s.in_ = InPort( Bits8 ); s.out = OutPort( Bits8 )
    s.c = L(); s.c.in_ //= s.in_
    @update
    def up_top(): s.out @= zext( s.c.out[0:4], 8 )
def md(top):
  return sorted(repr(x) for x in top.get_all_object_filter(lambda x: isinstance(x,Signal))), sorted(repr(x) for x in top._dsl.all_signals)
a=Top(LeafA); a.elaborate(); a.replace_component(a.c,LeafB)
b=Top(LeafB); b.elaborate()
print(md(a)==md(b)); print(md(a)); print(md(b))
sys.exit(0 if md(a)==md(b) else 1)
