"""Native witnesses for findings F4 and F5 (C15): stale explicit constraints / update_once blocks after replace_component.
exit 1 = defect reproduced on the tree given by REPO (default /repo), 0 = not reproduced."""
import sys, os
sys.path.insert(0, os.environ.get('REPO','/repo'))
from pymtl3 import *

class Child( Component ):
  def construct( s ):
    s.in_ = InPort( Bits8 ); s.out = OutPort( Bits8 ); s.w = Wire( Bits8 )
    @update
    def up_child(): s.out @= s.in_ + 1
    @update_once
    def up_once(): pass
    s.add_constraints( WR(s.w) < U(up_child), RD(s.w) > U(up_child), M(s.meth) < U(up_once) )
  @non_blocking( lambda s: True )
  def meth( s ): pass

class Other( Component ):
  def construct( s ):
    s.in_ = InPort( Bits8 ); s.out = OutPort( Bits8 )
    s.out //= s.in_

class Top( Component ):
  def construct( s ):
    s.in_ = InPort( Bits8 ); s.out = OutPort( Bits8 )
    s.c = Child(); s.c.in_ //= s.in_; s.c.out //= s.out

def main():
  top=Top(); top.elaborate()
  old_blks={b.__name__ for b in top.get_all_update_blocks()}
  top.replace_component( top.c, Other )
  uu,rd,wr,mc=top.get_all_explicit_constraints()
  bad=[]
  for sig,cons in wr.items():
    for sign,blk in cons:
      if blk.__name__=='up_child': bad.append(f"F4: all_WR_U_constraints still holds WR({sig!r}) vs U(up_child) of the removed child")
  for sig,cons in rd.items():
    for sign,blk in cons:
      if blk.__name__=='up_child': bad.append(f"all_RD_U_constraints still holds RD({sig!r}) vs U(up_child)")
  for b in top.get_all_update_once():
    if b.__name__=='up_once': bad.append("F5: all_update_once still holds the removed child's update_once block up_once")
  for c in mc:
    if any(getattr(x,'__name__','')=='up_once' for x in c[:2]) or 'up_once' in repr(c): bad.append("F5: all_M_constraints still holds the removed child's method constraint")
  for b in bad: print("FAILED     :",b)
  if not bad: print("no stale metadata of the removed child: NOT reproduced")
  return 1 if bad else 0
if __name__=='__main__': sys.exit(main())
