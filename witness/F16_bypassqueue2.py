"""Native witness for known finding F16 (C17): BypassQueue2RTL is not ready for an enqueue although it holds one message of two.
exit 1 = reproduced on the tree given by REPO (default /repo), 0 = not reproduced."""
import sys, os
sys.path.insert(0, os.environ.get('REPO','/repo'))
from pymtl3 import *
from pymtl3.stdlib.queues.enrdy_queues import BypassQueue2RTL
q=BypassQueue2RTL(Bits8); q.elaborate(); q.apply(DefaultPassGroup()); q.sim_reset()
def cyc(en,msg,rdy):
  q.enq.en@=en; q.enq.msg@=msg; q.deq.rdy@=rdy; q.sim_eval_combinational()
  r=(int(q.enq.rdy),int(q.q1.full.out)+int(q.q2.full.out)); q.sim_tick(); return r
cyc(1,11,0); cyc(1,22,1)
rdy,occ=cyc(0,0,0)
print(f"occupancy {occ} of 2, enq.rdy = {rdy}")
sys.exit(1 if (occ<2 and rdy==0) else 0)
