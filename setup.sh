#!/bin/bash
# builds the framework's interpreter from files on disk only: a 3.12 venv with z3/cvc5 from the offline wheelhouse,
# overlaid on /venv's site-packages (pymtl3's own dependencies).  Idempotent.
set -e
cd "$(dirname "$(readlink -f "$0")")"
if [ ! -x .venv/bin/python ] || ! .venv/bin/python -c 'import z3, cvc5, jsonschema' 2>/dev/null; then
  rm -rf .venv
  /venv/bin/python -m venv .venv
  PIP_NO_INDEX=1 .venv/bin/pip install -q --no-index --find-links /opt/veriftools/wheels z3-solver cvc5 jsonschema
  echo "import site; site.addsitedir('/venv/lib/python3.12/site-packages')" > .venv/lib/python3.12/site-packages/_venv_overlay.pth
fi
.venv/bin/python -c 'import z3, cvc5, pymtl3; print("setup ok: z3", z3.get_version_string())'
