"""rtlvc: elaborated RTL components as code under contract (DESIGN.md section 3.6).

The real class is instantiated with concrete parameters, elaborated and scheduled by the real passes
(GenDAGPass + DynamicSchedulePass).  Every update block's AST (the one the framework itself parsed) is
executed symbolically over bit-vectors; value nets are propagated in the real schedule order.
Operator semantics are the postconditions of the Bits contracts of C04/C05 (transfer table in bvsem.py);
a width mismatch / out-of-range literal / list index out of range is a failed *safety* obligation.
"""
import ast, inspect
import z3
from . import bvsem
from .bvsem import Sym, Unsup

class Safety:
  """a condition that must hold whenever the statement is reached (no ValueError/IndexError in simulation)."""
  def __init__(s,cond,what): s.cond=cond; s.what=what

class Model:
  def __init__(s, build, name=None):
    from pymtl3.passes.sim.GenDAGPass import GenDAGPass
    from pymtl3.passes.sim.DynamicSchedulePass import DynamicSchedulePass
    from pymtl3.passes.sim.SimpleSchedulePass import SimpleSchedulePass
    top=build(); s.top=top; s.name=name or type(top).__name__
    top.elaborate()
    top.apply(GenDAGPass())
    top.apply(DynamicSchedulePass())
    from pymtl3.dsl import Const
    s.Const=Const
    s.ff=set(top.get_all_update_ff())
    s.upblks=set(top.get_all_update_blocks())-s.ff
    s.genblks=set(top._dag.genblks)
    s.schedule=list(top._sched.update_schedule)
    for b in s.schedule:
      if b not in s.upblks and b not in s.genblks:
        raise Unsup(f"schedule entry {getattr(b,'__name__',b)} is neither a user block nor a net block (cyclic SCC wrapper?)")
    # nets: writer -> readers, per generated block
    s.netinfo={}
    for b in s.genblks:
      rd=top._dag.genblk_reads.get(b,[])
      s.netinfo[b]=(rd[0] if rd else None, list(top._dag.genblk_writes[b]))
    s.nets=[(w,list(sigs)) for w,sigs in top.get_all_value_nets()]
    # constants drive their nets: find the Const writer of blocks that have no signal writer
    for w,sigs in s.nets:
      if isinstance(w,Const):
        for b,(rw,readers) in s.netinfo.items():
          if rw is None and set(map(id,readers))==set(map(id,[x for x in sigs if x is not w])): s.netinfo[b]=(w,readers)
    from pymtl3.dsl.Connectable import Signal
    s.signals=sorted({x.get_top_level_signal() for x in top.get_all_object_filter(lambda x: isinstance(x,Signal))},key=repr)
    s.width={}
    for x in s.signals: s.width[x]=bvsem.type_nbits(x._dsl.Type)
    # registers: top-level signals written by an update_ff block
    s.regs=[]; s.reg_writer={}
    for blk in s.ff:
      host=top.get_update_block_host_component(blk)
      for w in top.get_all_upblk_metadata()[1].get(blk,[]):
        t=w.get_top_level_signal()
        if t in s.reg_writer and s.reg_writer[t] is not blk:
          raise Unsup(f"register {t!r} written by two update_ff blocks")
        s.reg_writer[t]=blk
        if t not in s.regs: s.regs.append(t)
    s.regs.sort(key=repr)
    s.inputs=[x for x in s.signals if x.is_input_value_port() and x.get_host_component() is top]
    s.outputs=[x for x in s.signals if x.is_output_value_port() and x.get_host_component() is top]
    s.blk_ast={}
    for blk in s.upblks|s.ff:
      host=top.get_update_block_host_component(blk)
      info=host.get_update_block_info(blk)
      tree=info[4]
      fn=tree.body[0]
      s.blk_ast[blk]=(fn,host,info[1])

  def by_name(s,name):
    for x in s.signals:
      if repr(x)==name: return x
    raise KeyError(name)

  def fresh_state(s,tag):
    return {r:z3.BitVec(f"{tag}.{r!r}",s.width[r]) for r in s.regs}
  def fresh_inputs(s,tag):
    return {r:z3.BitVec(f"{tag}.{r!r}",s.width[r]) for r in s.inputs}

  # ------------------------------------------------------------------------------------------
  def step(s,state,inputs,tag='c'):
    """one cycle: combinational evaluation in the real schedule order from (state, inputs), then the ff blocks.
    returns dict(env=settled signal values, next=next state, safety=[Safety], fixpoint=[z3 Bool per re-run block])"""
    env={}
    for x in s.signals:
      if x in state: env[x]=state[x]
      elif x in inputs: env[x]=inputs[x]
      else: env[x]=z3.BitVec(f"{tag}.undriven.{x!r}",s.width[x])     # not yet computed: arbitrary (a read before write would surface)
    safety=[]
    driven=set(state)|set(inputs)
    for blk in s.schedule:
      s.run_block(blk,env,None,safety,z3.BoolVal(True))
    # fixed point: re-running every scheduled block on the settled values changes nothing (C01 clause)
    fix=[]
    for blk in s.schedule:
      e2=dict(env); s.run_block(blk,e2,None,[],z3.BoolVal(True))
      diffs=[e2[x]==env[x] for x in e2 if e2[x] is not env[x]]
      fix.append((getattr(blk,'__name__','net'),z3.And(*diffs) if diffs else z3.BoolVal(True)))
    nxt=dict(state)
    for blk in sorted(s.ff,key=lambda b:b.__name__):
      s.run_block(blk,env,nxt,safety,z3.BoolVal(True))
    return dict(env=env,next=nxt,safety=safety,fixpoint=fix)

  def run_block(s,blk,env,nxt,safety,guard):
    if blk in s.genblks:
      w,readers=s.netinfo[blk]
      if w is None: return
      val=s.read(w,env)
      for r in readers: s.write(r,val,env,guard)
      return
    fn,host,src=s.blk_ast[blk]
    ex=bvsem.BlockExec(s,blk,host,env,nxt,safety)
    ex.run(fn.body,guard)

  # ---- signal references -> (top-level signal, lo, hi)
  def locate(s,x):
    if isinstance(x,s.Const):
      raise Unsup("locate of constant")
    t=x.get_top_level_signal()
    if x is t: return t,0,s.width[t]
    return (t,)+bvsem.locate_in(x,t)

  def read(s,x,env):
    if isinstance(x,s.Const):
      v=x._dsl.const
      n=bvsem.type_nbits(x._dsl.Type)
      return z3.BitVecVal(int(v),n)
    t,lo,hi=s.locate(x)
    v=env[t]
    return v if (lo==0 and hi==s.width[t]) else z3.Extract(hi-1,lo,v)

  def write(s,x,val,env,guard,store=None):
    store=env if store is None else store
    t,lo,hi=s.locate(x)
    W=s.width[t]
    if val.size()!=hi-lo: raise Unsup(f"net/assignment width mismatch writing {x!r}: {val.size()} vs {hi-lo}")
    old=store[t]
    parts=[]
    if hi<W: parts.append(z3.Extract(W-1,hi,old))
    parts.append(val)
    if lo>0: parts.append(z3.Extract(lo-1,0,old))
    new=parts[0] if len(parts)==1 else z3.Concat(*parts)
    store[t]=new if z3.is_true(guard) else z3.If(guard,new,old)
