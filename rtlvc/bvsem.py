"""Bit-vector semantics of update-block code (transfer table from the Bits contracts of C04/C05).

  Bits contract postcondition (Int level)            bit-vector term (width n)
  (a + b) mod 2^n , (a - b) mod 2^n, (a*b) mod 2^n    bvadd, bvsub, bvmul
  band/bor/bxor(a,b), 2^n-1-a                         bvand, bvor, bvxor, bvnot
  (a * 2^k) mod 2^n  (0 for k >= n)                   bvshl   (SMT-LIB: 0 for k >= n)
  a div 2^k                                           bvlshr
  a div b, a mod b (b != 0)                           bvudiv, bvurem   (b == 0 is a safety violation)
  b2i(a < b) ...                                      ite(bvult a b, #b1, #b0)
  field(x, lo, hi-lo)                                 ((_ extract hi-1 lo) x)
  setfield(x, lo, w, m)                               concat(extract(hi..), m, extract(..lo))
  width mismatch / int operand outside [0,2^n) / assignment outside [-2^(n-1), 2^n)  ->  failed safety obligation
Each row is checked against the Int-level definition by z3 for widths 1..8 in selfcheck().
"""
import ast
import z3

class Unsup(Exception):
  """construct outside the supported fragment: the component is out of reach (never silently skipped)."""

class Sym:
  __slots__=('bv',)
  def __init__(s,bv): s.bv=bv
  @property
  def n(s): return s.bv.size()
  def __repr__(s): return f"Sym<{s.n}>"

def _dt():
  import pymtl3.datatypes as dt
  return dt

def type_nbits(T):
  dt=_dt()
  if isinstance(T,type) and issubclass(T,dt.Bits): return T.nbits
  if dt.is_bitstruct_class(T):
    return sum(_field_nbits(t) for t in T.__bitstruct_fields__.values())
  raise Unsup(f"signal type {T}")

def _field_nbits(t):
  if isinstance(t,list): return len(t)*_field_nbits(t[0])
  return type_nbits(t)

def struct_field_range(T,name,indices):
  """bit range [lo,hi) of field `name`[indices] inside the packed value of bitstruct class T
  (first field most significant; list element 0 least significant inside its field) - from the statement of C06."""
  fields=list(T.__bitstruct_fields__.items())
  total=type_nbits(T); pos=total
  for fname,ft in fields:
    w=_field_nbits(ft); pos-=w
    if fname==name:
      lo=pos; t=ft
      for i in indices:
        ew=_field_nbits(t[0]); lo=lo+i*ew; t=t[0]
      return lo,lo+_field_nbits(t),t
  raise Unsup(f"no field {name}")

def locate_in(x,top):
  """(lo,hi) of signal x inside its top-level signal."""
  d=x._dsl
  if x is top: return 0,type_nbits(top._dsl.Type)
  p=d.parent_obj
  plo,phi=locate_in(p,top)
  if d.slice is not None:
    return plo+d.slice.start,plo+d.slice.stop
  T=p._dsl.Type
  lo,hi,_=struct_field_range(T,d._my_name,list(getattr(d,'_my_indices',[]) or []))
  return plo+lo,plo+hi

def bv1(c): return z3.If(c,z3.BitVecVal(1,1),z3.BitVecVal(0,1))

class BlockExec:
  def __init__(s,model,blk,host,env,nxt,safety):
    s.m=model; s.blk=blk; s.host=host; s.env=env; s.nxt=nxt; s.safety=safety
    s.locals={}
    s.closure={}
    if blk.__closure__:
      for nm,cell in zip(blk.__code__.co_freevars,blk.__closure__):
        try: s.closure[nm]=cell.cell_contents
        except ValueError: pass
    s.globals=blk.__globals__
    from pymtl3.dsl.Connectable import Signal
    s.Signal=Signal
    dt=_dt(); s.Bits=dt.Bits; s.dt=dt
    s.is_ff = nxt is not None

  def fail(s,guard,what):
    s.safety.append((z3.Not(guard) if not z3.is_true(guard) else z3.BoolVal(False),f"{s.blk.__name__}: {what}"))
  def require(s,guard,cond,what):
    s.safety.append((z3.Implies(guard,cond),f"{s.blk.__name__}: {what}"))

  # ------------------------------------------------------------------------------------ statements
  def run(s,stmts,guard):
    for n in stmts: s.stmt(n,guard)

  def stmt(s,n,guard):
    s._g=guard
    if isinstance(n,ast.AugAssign):
      if isinstance(n.op,ast.MatMult):
        if s.is_ff: raise Unsup("@= in update_ff")
        s.assign(n.target,s.ev(n.value),guard,s.env); return
      if isinstance(n.op,ast.LShift):
        if not s.is_ff: raise Unsup("<<= in update")
        s.assign(n.target,s.ev(n.value),guard,s.nxt); return
      raise Unsup(f"augmented assignment {type(n.op).__name__}")
    if isinstance(n,ast.Assign):
      if len(n.targets)!=1 or not isinstance(n.targets[0],ast.Name): raise Unsup("assignment to non-local")
      v=s.ev(n.value); nm=n.targets[0].id
      if isinstance(v,s.Signal): v=Sym(s.m.read(v,s.env))
      if not z3.is_true(guard) and nm in s.locals and (isinstance(v,Sym) or isinstance(s.locals[nm],Sym)):
        a=s.tobv(v,None); b=s.tobv(s.locals[nm],a.size()); v=Sym(z3.If(guard,a,b))
      s.locals[nm]=v; return
    if isinstance(n,ast.If):
      c=s.ev(n.test)
      t=s.truth(c)
      if isinstance(t,bool):
        s.run(n.body if t else n.orelse,guard); return
      s.run(n.body,z3.And(guard,t)); s.run(n.orelse,z3.And(guard,z3.Not(t))); return
    if isinstance(n,ast.For):
      it=s.ev(n.iter)
      if isinstance(it,(Sym,s.Signal)) or not isinstance(n.target,ast.Name): raise Unsup("for over symbolic value")
      for v in list(it):
        s.locals[n.target.id]=v; s.run(n.body,guard)
      if n.orelse: raise Unsup("for-else")
      return
    if isinstance(n,ast.Pass): return
    if isinstance(n,ast.Expr) and isinstance(n.value,ast.Constant): return
    if isinstance(n,ast.Assert): return
    raise Unsup(f"statement {type(n).__name__} in block {s.blk.__name__}")

  def truth(s,c):
    if isinstance(c,s.Signal): c=Sym(s.m.read(c,s.env))
    if isinstance(c,Sym): return c.bv!=0
    return bool(c)

  # ------------------------------------------------------------------------------------ writes
  def assign(s,target,val,guard,store):
    # target: attribute/subscript chain denoting a signal (possibly with symbolic list index / bit index)
    if isinstance(target,ast.Subscript):
      base=s.ev(target.value); idx=s.ev_index(target.slice)
      if isinstance(idx,s.Signal): idx=Sym(s.m.read(idx,s.env))
      if isinstance(idx,Sym):
        if isinstance(base,(list,tuple)):
          s.require(guard,z3.ULT(idx.bv,z3.BitVecVal(len(base),idx.n)) if len(base)<2**idx.n else z3.BoolVal(True),f"list index in range (len {len(base)})")
          for j,el in enumerate(base):
            if j>=2**idx.n: break
            s.write_sig(el,val,z3.And(guard,idx.bv==j),store)
          return
        if isinstance(base,s.Signal):
          n=type_nbits(base._dsl.Type)
          s.require(guard,z3.ULT(idx.bv,z3.BitVecVal(n,idx.n)) if n<2**idx.n else z3.BoolVal(True),"bit index in range")
          for j in range(min(n,2**idx.n)): s.write_sig(base[j],val,z3.And(guard,idx.bv==j),store)
          return
        raise Unsup("symbolic index on "+repr(base))
      tgt=base[idx]
    else:
      tgt=s.ev(target)
    s.write_sig(tgt,val,guard,store)

  def write_sig(s,sig,val,guard,store):
    if not isinstance(sig,s.Signal): raise Unsup(f"assignment target {sig!r} is not a signal")
    t,lo,hi=s.m.locate(sig); n=hi-lo
    if isinstance(val,s.Signal): val=Sym(s.m.read(val,s.env))
    if isinstance(val,Sym):
      if val.n!=n: s.fail(guard,f"width mismatch assigning Bits{val.n} to {sig!r} (Bits{n})"); return
      bv=val.bv
    elif isinstance(val,s.Bits):
      if val.nbits!=n: s.fail(guard,f"width mismatch assigning Bits{val.nbits} constant to {sig!r} (Bits{n})"); return
      bv=z3.BitVecVal(int(val),n)
    elif isinstance(val,(int,bool)):
      v=int(val)
      if not (-(2**(n-1))<=v<=2**n-1): s.fail(guard,f"value {v} does not fit {sig!r} (Bits{n})"); return
      bv=z3.BitVecVal(v % 2**n,n)
    elif hasattr(val,'to_bits'):
      b=val.to_bits()
      if b.nbits!=n: s.fail(guard,"struct width mismatch"); return
      bv=z3.BitVecVal(int(b),n)
    else: raise Unsup(f"assigned value {val!r}")
    s.m.write(sig,bv,s.env,guard,store)

  # ------------------------------------------------------------------------------------ expressions
  def tobv(s,v,n):
    if isinstance(v,s.Signal): v=Sym(s.m.read(v,s.env))
    if isinstance(v,Sym): return v.bv
    if isinstance(v,s.Bits): return z3.BitVecVal(int(v),v.nbits)
    if isinstance(v,(int,bool)):
      if n is None: raise Unsup("integer without width context")
      return z3.BitVecVal(int(v) % 2**n,n)
    raise Unsup(f"value {v!r}")

  def ev_index(s,n):
    if isinstance(n,ast.Slice):
      lo=s.ev(n.lower) if n.lower is not None else None
      hi=s.ev(n.upper) if n.upper is not None else None
      if n.step is not None: raise Unsup("stepped slice")
      for b in (lo,hi):
        if isinstance(b,(Sym,s.Signal)): raise Unsup("symbolic slice bound")
      return slice(None if lo is None else int(lo), None if hi is None else int(hi))
    return s.ev(n)

  def ev(s,n):
    m=getattr(s,'ev_'+type(n).__name__,None)
    if m is None: raise Unsup(f"expression {type(n).__name__} in block {s.blk.__name__}")
    return m(n)

  def ev_Constant(s,n): return n.value
  def ev_Name(s,n):
    if n.id in s.locals: return s.locals[n.id]
    if n.id in s.closure: return s.closure[n.id]
    if n.id in s.globals: return s.globals[n.id]
    import builtins
    if hasattr(builtins,n.id): return getattr(builtins,n.id)
    raise Unsup(f"unbound name {n.id}")
  def ev_Attribute(s,n):
    o=s.ev(n.value)
    if isinstance(o,Sym): raise Unsup("attribute of symbolic value")
    return getattr(o,n.attr)
  def ev_Tuple(s,n): return tuple(s.ev(e) for e in n.elts)
  def ev_List(s,n): return [s.ev(e) for e in n.elts]

  def ev_Subscript(s,n):
    base=s.ev(n.value); idx=s.ev_index(n.slice)
    if isinstance(idx,s.Signal): idx=Sym(s.m.read(idx,s.env))
    if isinstance(idx,s.Bits) : idx=int(idx)
    if isinstance(idx,Sym):
      if isinstance(base,(list,tuple)):
        L=len(base)
        s.require(s.cur_guard(),z3.ULT(idx.bv,z3.BitVecVal(L,idx.n)) if L<2**idx.n else z3.BoolVal(True),f"list index in range (len {L})")
        vals=[s.tobv(b,None) for b in base]
        acc=vals[min(L,2**idx.n)-1]
        for j in range(min(L,2**idx.n)-2,-1,-1): acc=z3.If(idx.bv==j,vals[j],acc)
        return Sym(acc)
      x=s.tobv(base,None); W=x.size()
      s.require(s.cur_guard(),z3.ULT(idx.bv,z3.BitVecVal(W,idx.n)) if W<2**idx.n else z3.BoolVal(True),"bit index in range")
      sh=z3.ZeroExt(W-idx.n,idx.bv) if idx.n<W else z3.Extract(W-1,0,idx.bv)
      return Sym(z3.Extract(0,0,z3.LShR(x,sh)))
    if isinstance(base,Sym):
      W=base.n
      if isinstance(idx,slice):
        lo=0 if idx.start is None else idx.start; hi=W if idx.stop is None else idx.stop
      else: lo,hi=int(idx),int(idx)+1
      if not 0<=lo<hi<=W: s.fail(s.cur_guard(),f"slice [{lo}:{hi}] of Bits{W}"); return Sym(z3.BitVecVal(0,max(hi-lo,1)))
      return Sym(z3.Extract(hi-1,lo,base.bv))
    return base[idx]

  def cur_guard(s): return getattr(s,'_g',z3.BoolVal(True))

  def ev_UnaryOp(s,n):
    v=s.ev(n.operand)
    if isinstance(v,s.Signal): v=Sym(s.m.read(v,s.env))
    if isinstance(n.op,ast.Invert):
      return Sym(~v.bv) if isinstance(v,Sym) else ~v
    if isinstance(n.op,ast.USub):
      if isinstance(v,Sym): raise Unsup("unary minus on Bits")
      return -v
    if isinstance(n.op,ast.Not):
      if isinstance(v,Sym): raise Unsup("'not' on a symbolic Bits (Python truthiness in expression)")
      return not v
    raise Unsup("unary op")

  def ev_IfExp(s,n):
    c=s.ev(n.test); t=s.truth(c)
    if isinstance(t,bool): return s.ev(n.body if t else n.orelse)
    a=s.ev(n.body); b=s.ev(n.orelse)
    if isinstance(a,s.Signal): a=Sym(s.m.read(a,s.env))
    if isinstance(b,s.Signal): b=Sym(s.m.read(b,s.env))
    w=a.n if isinstance(a,Sym) else b.n if isinstance(b,Sym) else a.nbits if isinstance(a,s.Bits) else b.nbits if isinstance(b,s.Bits) else None
    x=s.tobv(a,w); y=s.tobv(b,w)
    if x.size()!=y.size(): s.fail(s.cur_guard(),"if-expression arms of different width"); return Sym(x)
    return Sym(z3.If(t,x,y))

  def ev_BoolOp(s,n):
    vals=[s.ev(v) for v in n.values]
    if any(isinstance(v,(Sym,s.Signal)) for v in vals): raise Unsup("and/or on Bits values")
    r=vals[0]
    for v in vals[1:]: r=(r and v) if isinstance(n.op,ast.And) else (r or v)
    return r

  def ev_Compare(s,n):
    if len(n.ops)!=1:
      vals=[s.ev(n.left)]+[s.ev(c) for c in n.comparators]
      if any(isinstance(v,(Sym,s.Signal)) for v in vals): raise Unsup("chained comparison on Bits")
      import operator
      return eval(compile(ast.Expression(ast.Compare(ast.Constant(vals[0]),n.ops,[ast.Constant(v) for v in vals[1:]])),'<c>','eval'))
    a=s.ev(n.left); b=s.ev(n.comparators[0])
    return s.binop(n.ops[0],a,b)

  def ev_BinOp(s,n):
    return s.binop(n.op,s.ev(n.left),s.ev(n.right))

  def binop(s,op,a,b):
    if isinstance(a,s.Signal): a=Sym(s.m.read(a,s.env))
    if isinstance(b,s.Signal): b=Sym(s.m.read(b,s.env))
    if not isinstance(a,Sym) and not isinstance(b,Sym):
      # concrete: the real Python/Bits operator
      import operator as O
      f={ast.Add:O.add,ast.Sub:O.sub,ast.Mult:O.mul,ast.FloorDiv:O.floordiv,ast.Mod:O.mod,ast.BitAnd:O.and_,ast.BitOr:O.or_,ast.BitXor:O.xor,
         ast.LShift:O.lshift,ast.RShift:O.rshift,ast.Eq:O.eq,ast.NotEq:O.ne,ast.Lt:O.lt,ast.LtE:O.le,ast.Gt:O.gt,ast.GtE:O.ge,ast.Pow:O.pow}.get(type(op))
      if f is None: raise Unsup(f"operator {type(op).__name__}")
      return f(a,b)
    g=s.cur_guard()
    shift=isinstance(op,(ast.LShift,ast.RShift))
    if isinstance(a,Sym): n=a.n
    elif isinstance(a,s.Bits): n=a.nbits
    else: n=b.n          # int op Bits: reflected form, width of the Bits operand
    def operand(v,which):
      if isinstance(v,Sym): w=v.n; bv=v.bv
      elif isinstance(v,s.Bits): w=v.nbits; bv=z3.BitVecVal(int(v),w)
      elif isinstance(v,(int,bool)):
        v=int(v)
        if not 0<=v<=2**n-1: s.fail(g,f"integer {v} is not a valid operand for Bits{n}"); v=0
        return z3.BitVecVal(v,n)
      else: raise Unsup(f"operand {v!r}")
      if w!=n: s.fail(g,f"operands of different widths Bits{n} / Bits{w}"); return z3.BitVecVal(0,n)
      return bv
    x=operand(a,'l'); y=operand(b,'r')
    T=type(op)
    if T is ast.Add: return Sym(x+y)
    if T is ast.Sub: return Sym(x-y)
    if T is ast.Mult: return Sym(x*y)
    if T is ast.BitAnd: return Sym(x&y)
    if T is ast.BitOr: return Sym(x|y)
    if T is ast.BitXor: return Sym(x^y)
    if T is ast.LShift:
      if not isinstance(a,(Sym,s.Bits)): raise Unsup("int << Bits")
      return Sym(x<<y)
    if T is ast.RShift:
      if not isinstance(a,(Sym,s.Bits)): raise Unsup("int >> Bits")
      return Sym(z3.LShR(x,y))
    if T in (ast.FloorDiv,ast.Mod):
      s.require(g,y!=0,"division by zero")
      return Sym(z3.UDiv(x,y) if T is ast.FloorDiv else z3.URem(x,y))
    if T is ast.Eq: return Sym(bv1(x==y))
    if T is ast.NotEq: return Sym(bv1(x!=y))
    if T is ast.Lt: return Sym(bv1(z3.ULT(x,y)))
    if T is ast.LtE: return Sym(bv1(z3.ULE(x,y)))
    if T is ast.Gt: return Sym(bv1(z3.UGT(x,y)))
    if T is ast.GtE: return Sym(bv1(z3.UGE(x,y)))
    raise Unsup(f"operator {T.__name__} on Bits")

  def ev_Call(s,n):
    f=s.ev(n.func)
    args=[s.ev(a) for a in n.args]; kw={k.arg:s.ev(k.value) for k in n.keywords}
    args=[Sym(s.m.read(a,s.env)) if isinstance(a,s.Signal) else a for a in args]
    symbolic=any(isinstance(a,Sym) for a in args)
    if not symbolic:
      if isinstance(f,type) or f in (range,len,min,max,int,abs) or getattr(f,'__module__','').startswith('pymtl3.datatypes'):
        return f(*args,**kw)
      raise Unsup(f"call to {f!r} inside an update block")
    dt=s.dt
    if isinstance(f,type) and issubclass(f,s.Bits):
      if len(args)!=1 or not hasattr(f,'nbits'): raise Unsup("Bits constructor form")
      if args[0].n!=f.nbits: s.fail(s.cur_guard(),f"Bits{f.nbits}( Bits{args[0].n} value )"); return Sym(z3.BitVecVal(0,f.nbits))
      return args[0]
    def width(w):
      return w.nbits if isinstance(w,type) else int(w)
    if f is dt.zext:
      w=width(args[1]); x=args[0]
      if w<x.n: s.fail(s.cur_guard(),"zext to a narrower width"); return Sym(z3.BitVecVal(0,w))
      return Sym(z3.ZeroExt(w-x.n,x.bv)) if w>x.n else x
    if f is dt.sext:
      w=width(args[1]); x=args[0]
      if w<x.n: s.fail(s.cur_guard(),"sext to a narrower width"); return Sym(z3.BitVecVal(0,w))
      return Sym(z3.SignExt(w-x.n,x.bv)) if w>x.n else x
    if f is dt.trunc:
      w=width(args[1]); x=args[0]
      if w>x.n or w<1: s.fail(s.cur_guard(),"trunc to a wider width"); return Sym(z3.BitVecVal(0,max(w,1)))
      return Sym(z3.Extract(w-1,0,x.bv))
    if f is dt.concat:
      bvs=[s.tobv(a,None) for a in args]
      return Sym(z3.Concat(*bvs) if len(bvs)>1 else bvs[0])
    if f is dt.reduce_or: return Sym(bv1(args[0].bv!=0))
    if f is dt.reduce_and: return Sym(bv1(args[0].bv==z3.BitVecVal(2**args[0].n-1,args[0].n)))
    if f is dt.reduce_xor:
      x=args[0].bv; acc=z3.Extract(0,0,x)
      for i in range(1,x.size()): acc=acc^z3.Extract(i,i,x)
      return Sym(acc)
    raise Unsup(f"call to {f!r} with symbolic arguments")

def selfcheck(maxw=6):
  """transfer table vs the Int-level definitions of the Bits contracts, decided by z3 for every width 1..maxw."""
  bad=[]
  for n in range(1,maxw+1):
    a=z3.BitVec('a',n); b=z3.BitVec('b',n); A=z3.BV2Int(a); Bv=z3.BV2Int(b); M=2**n
    rows={'add':(a+b,(A+Bv)%M),'sub':(a-b,(A-Bv)%M),'mul':(a*b,(A*Bv)%M),'not':(~a,M-1-A),
          'lt':(bv1(z3.ULT(a,b)),z3.If(A<Bv,1,0)),'udiv':(z3.UDiv(a,b),z3.If(Bv==0,z3.BV2Int(z3.UDiv(a,b)),A/Bv)),'urem':(z3.URem(a,b),z3.If(Bv==0,z3.BV2Int(z3.URem(a,b)),A%Bv))}
    for k in range(0,n+2):
      rows[f'shl{k}']=(a<<z3.BitVecVal(k % M,n) if k<M else z3.BitVecVal(0,n),(A*2**k)%M)
      rows[f'shr{k}']=(z3.LShR(a,z3.BitVecVal(k % M,n)) if k<M else z3.BitVecVal(0,n),A/(2**k))
    for lo in range(n):
      for hi in range(lo+1,n+1):
        rows[f'ext{lo}_{hi}']=(z3.Extract(hi-1,lo,a),(A/(2**lo))%(2**(hi-lo)))
    for nm,(bvterm,intterm) in rows.items():
      s=z3.Solver(); s.add(z3.BV2Int(bvterm)!=intterm)
      if s.check()!=z3.unsat: bad.append((n,nm))
  return bad
