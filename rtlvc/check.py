"""Inductive verification of an elaborated RTL component against a sidecar spec, per configuration.

Obligations (all over the symbolic one-cycle relation extracted from the real update blocks):
  fixpoint::<cfg>        for all states/inputs: re-running any scheduled block after evaluation changes nothing   (C01 clause)
  init::<cfg>            a cycle with reset=1 from any state establishes Inv
  inv::<cfg>             Inv /\\ legal inputs  =>  Inv(next)
  safety::<cfg>          Inv /\\ legal inputs  =>  no width/index/zero-division error can occur in any block
  step::<cfg>::<clause>  Inv /\\ reset=0 /\\ legal inputs  =>  clause(state, inputs, outputs, next)
A failed obligation is turned into a trace from the real reset state by bounded unrolling and replayed on the real simulator.
"""
import time, json, os
import z3
from .model import Model
from .bvsem import Unsup

class Spec:
  """sidecar spec of one RTL class.  Subclasses define:
     build(cfg) -> component ; configs(tier) -> list of cfg dicts ;
     inv(V) -> z3 Bool ; legal(V) -> z3 Bool ; clauses(V) -> [(name, z3 Bool)]
     where V gives access to st[name], inp[name], out[name], nxt[name] (z3 constants named after the signals)."""
  name='?'; key='?'; prop_ids=()
  def legal(s,V): return z3.BoolVal(True)
  def inv(s,V): return z3.BoolVal(True)
  def clauses(s,V): return []
  def reset_clauses(s,V): return []      # required of a cycle with reset=1, from any state
  def covers(s,V): return []             # situations that must be reachable in one cycle under Inv/legal (vacuity guard)
  def bmc_depth(s,cfg): return 6

class View:
  """z3 constants for every signal at one cycle: st (registers, pre-edge), inp (top-level inputs), out (settled signals), nxt (registers, post-edge)."""
  def __init__(s,m,tag):
    s.m=m; s.tag=tag
    s.st={r:z3.BitVec(f"{tag}.st.{r!r}",m.width[r]) for r in m.regs}
    s.inp={r:z3.BitVec(f"{tag}.in.{r!r}",m.width[r]) for r in m.inputs}
    s.out={r:z3.BitVec(f"{tag}.out.{r!r}",m.width[r]) for r in m.signals}
    s.nxt={r:z3.BitVec(f"{tag}.nxt.{r!r}",m.width[r]) for r in m.regs}
    s.cfg={}
  def S(s,name): return s.st[s.m.by_name(name)]
  def I(s,name): return s.inp[s.m.by_name(name)]
  def O(s,name): return s.out[s.m.by_name(name)]
  def N(s,name): return s.nxt[s.m.by_name(name)]
  def shifted(s):
    """the view of the next cycle's pre-edge state = this cycle's nxt (for invariants on next)."""
    v=View.__new__(View); v.m=s.m; v.tag=s.tag+"'"; v.st=s.nxt; v.inp=s.inp; v.out=s.out; v.nxt=s.nxt; v.cfg=s.cfg
    return v

def relation(m,V):
  """definitional equalities tying out/nxt constants to the symbolic execution of the real blocks."""
  r=m.step(V.st,V.inp,V.tag)
  defs=[V.out[x]==r['env'][x] for x in m.signals]+[V.nxt[x]==r['next'][x] for x in m.regs]
  return defs,r

def solve(assumps,goal,timeout_ms):
  s=z3.Solver(); s.set('timeout',timeout_ms)
  for a in assumps: s.add(a)
  s.add(z3.Not(goal))
  t=time.time(); r=s.check(); dt=time.time()-t
  return r,dt,(s.model() if r==z3.sat else None)

def cfg_name(cfg): return ','.join(f"{k}={v}" for k,v in cfg.items())

def verify_config(spec,cfg,repo,timeout_ms=60000):
  """returns list of obligation summaries (same shape as pyvc's) for one configuration."""
  t0=time.time()
  cn=cfg_name(cfg); obls=[]
  def add(name,kind,status,dt,detail='',cex=None,queries=1):
    obls.append(dict(name=f"{kind}::{spec.key}::{cn}"+(f"::{name}" if name else ''),kind=kind,status=status,queries=queries,time=round(dt,3),
                     solver='z3-bv',cex=cex,detail=detail))
  m=Model(lambda: spec.build(cfg))
  V=View(m,'c'); V.cfg=cfg
  defs,r=relation(m,V)
  rst=V.inp.get(m.by_name('s.reset'))
  # fixpoint
  res,dt,mod=solve([],z3.And(*[f for _,f in r['fixpoint']]) if r['fixpoint'] else z3.BoolVal(True),timeout_ms)
  add('', 'fixpoint', 'proved' if res==z3.unsat else 'unproved', dt, '' if res==z3.unsat else 'some block is not idempotent on the settled state',
      None if res==z3.unsat else dict(stage='fixpoint'))
  inv=spec.inv(V); legal=spec.legal(V); invn=spec.inv(V.shifted())
  # init
  res,dt,mod=solve(defs+[rst==1],invn,timeout_ms)
  add('', 'init', 'proved' if res==z3.unsat else 'unproved', dt, '', None if res==z3.unsat else dict(stage='init'))
  for name,cl in spec.reset_clauses(V):
    res,dt,mod=solve(defs+[rst==1],cl,timeout_ms)
    add(name,'reset','proved' if res==z3.unsat else 'unproved',dt,'',None if res==z3.unsat else dict(stage='reset',clause=name))
  # inv
  res,dt,mod=solve(defs+[inv,legal,rst==0],invn,timeout_ms)
  add('', 'inv', 'proved' if res==z3.unsat else 'unproved', dt, '', None if res==z3.unsat else dict(stage='inv'))
  # safety
  if r['safety']:
    res,dt,mod=solve(defs+[inv,legal],z3.And(*[c for c,_ in r['safety']]),timeout_ms)
    what=''
    if res!=z3.unsat and mod is not None:
      what='; '.join(w for c,w in r['safety'] if z3.is_false(mod.eval(c,model_completion=True)))
    add('', 'safety', 'proved' if res==z3.unsat else 'unproved', dt, what, None if res==z3.unsat else dict(stage='safety'),queries=len(r['safety']))
  else:
    add('', 'safety', 'proved', 0.0, 'no dynamic width/index obligation arises (all widths static)')
  for name,cl in spec.clauses(V):
    res,dt,mod=solve(defs+[inv,legal,rst==0],cl,timeout_ms)
    add(name,'step','proved' if res==z3.unsat else 'unproved',dt,'',None if res==z3.unsat else dict(stage='step',clause=name))
  # vacuity guards: the hypotheses of the step obligations are satisfiable, and the interesting events can happen
  for name,cv in [('hypotheses',z3.BoolVal(True))]+list(spec.covers(V)):
    sv=z3.Solver(); sv.set('timeout',timeout_ms)
    for a in defs+[inv,legal,rst==0,cv]: sv.add(a)
    t1=time.time(); rc=sv.check()
    add(name,'cover','proved' if rc==z3.sat else 'unproved',time.time()-t1,'' if rc==z3.sat else 'the hypotheses of the step obligations exclude this situation: vacuous proof')
  # refutation by unrolling from the real reset state
  bad=[o for o in obls if o['status']!='proved' and o['kind']!='cover']
  if bad:
    tr=find_trace(spec,cfg,m,[o for o in bad],timeout_ms)
    for o in bad:
      t=tr.get(o['name'])
      if t is not None:
        o['status']='violated'
        o['cex']=dict(known=None,types={},model={},origin=f"bounded unrolling from the reset state, depth {len(t['inputs'])}",
                      args=dict(config=cn,trace=t['inputs']),native=dict(failed=t['failed']),
                      custom=dict(kind='custom',module='rtlvc.replay',entry='replay_trace',spec=spec.key,cfg=cfg,trace=t['inputs'],clause=o['name']))
  info=dict(paths=len(m.schedule)+len(m.ff),variants=1)
  return obls,info,m

def find_trace(spec,cfg,m,bad,timeout_ms):
  """unroll from the state the real simulator is in after sim_reset (all-zero initial values, 3 reset cycles with zero inputs);
  look for a legal input sequence after which a failed clause is false; confirm by replaying on the real simulator."""
  from .replay import run_trace
  out={}
  zero_in={x:z3.BitVecVal(0,m.width[x]) for x in m.inputs}
  st={x:z3.BitVecVal(0,m.width[x]) for x in m.regs}
  rsig=m.by_name('s.reset')
  for k in range(3):
    i=dict(zero_in); i[rsig]=z3.BitVecVal(1,1)
    st={x:z3.simplify(v) for x,v in m.step(st,i,f"r{k}")['next'].items()}
  views=[]; assumps=[]
  depth=spec.bmc_depth(cfg)
  for k in range(depth):
    V=View(m,f"u{k}"); V.cfg=cfg
    r=m.step(st,V.inp,f"u{k}")
    assumps+= [V.st[x]==st[x] for x in m.regs]+[V.out[x]==r['env'][x] for x in m.signals]+[V.nxt[x]==r['next'][x] for x in m.regs]
    common=list(assumps)
    assumps+= [spec.legal(V), V.inp[rsig]==0]
    views.append((V,r))
    pending=[o for o in bad if o['name'] not in out or out[o['name']].get('weak')]
    if not pending: break
    for o in pending:
      goal=None
      if o['kind']=='step':
        for nm,cl in spec.clauses(V):
          if o['name'].endswith('::'+nm): goal=cl
      elif o['kind']=='inv':
        # prefer an externally visible consequence: some clause of the statement false on a reachable cycle
        cls=[c for _,c in spec.clauses(V)]
        goal=z3.And(*cls) if (cls and o['name'] in out) else spec.inv(V.shifted())
      elif o['kind']=='safety': goal=z3.And(*[c for c,_ in r['safety']]) if r['safety'] else None
      elif o['kind']=='fixpoint': goal=z3.And(*[f for _,f in r['fixpoint']]) if r['fixpoint'] else None
      use=assumps
      if o['kind'] in('init','reset'):
        # the last cycle of the trace asserts reset (in the middle of operation)
        use=common+[V.inp[rsig]==1]
        goal=spec.inv(V.shifted()) if o['kind']=='init' else None
        if o['kind']=='reset':
          for nm,cl in spec.reset_clauses(V):
            if o['name'].endswith('::'+nm): goal=cl
      if goal is None: continue
      res,dt,mod=solve(use,goal,timeout_ms)
      if res!=z3.sat: continue
      trace=[]
      for (Vj,_) in views:
        trace.append({repr(x):mod.eval(Vj.inp[x],model_completion=True).as_long() for x in m.inputs if repr(x) not in('s.clk',)})
      rr=run_trace(spec,cfg,trace,o['name'],os.environ.get('REPO','/repo'))
      if rr['failed']:
        weak = o['kind']=='inv' and all("'inv(next)'" in f for f in rr['failed'])
        if o['name'] in out and weak: continue
        out[o['name']]=dict(inputs=trace,failed=rr['failed'],weak=weak)
    st=r['next']
  return out
