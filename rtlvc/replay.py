"""Replay of an input trace on the real simulator (DefaultPassGroup) and evaluation of the spec clauses on the
values the real simulator produced (registers before/after the edge, settled signals) - independent of rtlvc's semantics."""
import sys, os
import z3

def _val(top,name):
  v=eval(name,{'s':top})
  if hasattr(v,'to_bits'): v=v.to_bits()
  return int(v)

def run_trace(spec,cfg,trace,clause_name,repo):
  if repo not in sys.path: sys.path.insert(0,repo)
  from pymtl3 import DefaultPassGroup
  from .model import Model
  from .check import View
  m=Model(lambda: spec.build(cfg))            # for names / widths / spec evaluation only
  top=spec.build(cfg); top.elaborate(); top.apply(DefaultPassGroup()); top.sim_reset()
  failed=[]; log=[]
  for t,inputs in enumerate(trace):
    for nm,v in inputs.items():
      if nm in('s.clk',): continue
      exec(f"{nm} @= {v}",{'s':top})
    top.sim_eval_combinational()
    V=View(m,f"t{t}"); V.cfg=cfg
    sub=[]
    for x in m.regs: sub.append((V.st[x],z3.BitVecVal(_val(top,repr(x)),m.width[x])))
    for x in m.signals: sub.append((V.out[x],z3.BitVecVal(_val(top,repr(x)),m.width[x])))
    for x in m.inputs: sub.append((V.inp[x],z3.BitVecVal(_val(top,repr(x)),m.width[x])))
    top.sim_tick()
    for x in m.regs: sub.append((V.nxt[x],z3.BitVecVal(_val(top,repr(x)),m.width[x])))
    if inputs.get('s.reset',0)==1: checks=[('inv(next)',spec.inv(V.shifted()))]+list(spec.reset_clauses(V))
    else: checks=[('inv(next)',spec.inv(V.shifted()))]+list(spec.clauses(V))
    row={nm:v for nm,v in inputs.items()}
    for nm,cl in checks:
      val=z3.simplify(z3.substitute(cl,*sub))
      if z3.is_false(val):
        failed.append(f"cycle {t}: clause '{nm}' is false on the values of the real simulator "
                      f"(inputs {inputs}, outputs { {repr(x):_val(top,repr(x)) for x in m.outputs} })")
    log.append(row)
  return dict(failed=failed,log=log)

def replay_trace(p,repo):
  """entry point of replay files (kind='custom')."""
  if repo not in sys.path: sys.path.insert(0,repo)
  import importlib
  from pyvc.driver import load_registry
  import contracts
  spec=contracts.rtl_spec(p['spec'])
  print(f"component  : {p['spec']}  configuration {p['cfg']}")
  print(f"trace      : {p['trace']}")
  r=run_trace(spec,p['cfg'],p['trace'],p.get('clause'),repo)
  if not r['failed']: print("all clauses hold on the real simulator for this trace: NOT reproduced"); return 0
  for f in r['failed']: print("FAILED     : "+f)
  return 1
