#!/verif/.venv/bin/python
"""adds the proved obligations of the contracts whose key contains <substr> to obligations.lock without re-running every proof
(a full `./check --relock` stays the rule after engine changes).  usage: PYTHONHASHSEED=0 tools/partial_relock.py <key-substring>"""
import sys,json,os
sys.path.insert(0,os.path.dirname(os.path.dirname(os.path.abspath(__file__)))); sys.setrecursionlimit(100000)
from pyvc import driver, cli
repo=os.environ.get('REPO','/repo'); sub=sys.argv[1]
reg=driver.load_registry(repo)
keys=[k for k,c in reg.contracts.items() if sub in k and not c.trusted]
res=cli.run_pool(repo,keys,20000,1,0,[],reg=reg)
lock=json.load(open(cli.LOCK)); n=0
for r in res:
  for o in r['obligations']:
    print(o['status'],o['name'])
    if o['status']=='proved': lock[o['name']]=r.get('ast_hash'); n+=1
json.dump(lock,open(cli.LOCK,'w'),indent=0,sort_keys=True); print('added/refreshed',n,'total',len(lock))
