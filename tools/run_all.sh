#!/bin/bash
# runs every claimed check against /repo (default seed), relocks, regenerates MANIFEST.json; prints one line per property
cd /verif
[ "$1" = "--relock" ] && { ./check --relock > out/relock.log 2>&1; echo "relock exit $?"; tail -1 out/relock.log; }
for p in C01 C02 C04 C05 C06 C07 C08 C09 C10 C11 C12 C13 C15 C16 C17 C18 C19 C20; do
  timeout 3000 ./check $p > out/run_$p.log 2>&1; rc=$?
  echo "$p exit $rc $(tail -1 out/run_$p.log | cut -c1-150)"
done
.venv/bin/python tools/mkmanifest.py
