#!/bin/bash
# usage: run_suite.sh <worktree>   -- runs the pinned test-suite in that worktree and reports baseline-passing tests that no longer pass
WT=$1
cd "$WT" || exit 2
OUT=$(mktemp /tmp/junit.XXXXXX.xml)
/venv/bin/python -m pytest -ra -q -p no:cacheprovider --timeout=900 --continue-on-collection-errors --junitxml=$OUT > $OUT.log 2>&1
/venv/bin/python - "$OUT" <<'PY'
import sys, xml.etree.ElementTree as ET
t=ET.parse(sys.argv[1]); ok=set()
for tc in t.iter('testcase'):
    bad=[c.tag for c in tc if c.tag in('failure','error','skipped')]
    if not bad: ok.add(tc.get('classname')+'::'+tc.get('name'))
base=[l.strip() for l in open('/verif/tools/baseline_pass.txt') if l.strip()]
miss=[b for b in base if b not in ok]
print(f"baseline-passing tests: {len(base)}; still passing: {len(base)-len(miss)}; broken: {len(miss)}")
for m in miss[:40]: print("BROKEN", m)
sys.exit(1 if miss else 0)
PY
rc=$?
rm -f $OUT $OUT.log
exit $rc
