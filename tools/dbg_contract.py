#!/verif/.venv/bin/python
"""debug helper: generate the obligations of one contract and time every query.  usage: tools/dbg_contract.py <key-substring> [timeout_ms] [name-filter]"""
import sys, os, time
sys.path.insert(0,'/verif'); sys.setrecursionlimit(100000)
import z3
from pyvc.driver import load_registry
from pyvc import verify
repo=os.environ.get('REPO','/repo'); sub=sys.argv[1]; tmo=int(sys.argv[2]) if len(sys.argv)>2 else 10000; flt=sys.argv[3] if len(sys.argv)>3 else ''
reg=load_registry(repo)
for key,c in reg.contracts.items():
  if sub not in key: continue
  t0=time.time(); obls,info=verify.generate(reg,c); print(key,len(obls),'obligations generated in %.1fs'%(time.time()-t0))
  for o in obls:
    if flt and flt not in o.name: continue
    for i,q in enumerate(o.queries):
      t1=time.time(); r,dt,solver,model=verify.solve_query(q,tmo)
      print(f"{r:8s} {dt:6.1f}s {solver:8s} {o.name.split('::',3)[0]}::{o.name.split('::')[-2] if 'loop@' in o.name else ''}::{o.name.split('::')[-1]} q{i} {q.path[-12:]} {q.note[:60]}",flush=True)
      if r!='unsat' and os.environ.get('DUMP'):
        s=z3.Solver(); [s.add(a) for a in q.assumptions]; s.add(z3.Not(q.goal)); open(f"/tmp/q_{o.name.split('::')[-1]}_{i}.smt2",'w').write(s.to_smt2())
