#!/bin/bash
# (the seeded inputs of both rounds are kept under /verif/seeded/<id>-<k>/{patch.diff,demo*.py}; pass /verif/seeded-style roots as <source root> if /tmp/seedout is gone)
# usage: tools/confirm_seed.sh <Cxx> <k> [source root=/tmp/seedout] [index under /verif/seeded]   -- confirms one seeded change in a scratch worktree of /repo's HEAD and runs the property's check against it
P=$1; K=$2; ROOT=${3:-/tmp/seedout}; OK=${4:-$K}; SRC=$ROOT/$P/$K; WT=/tmp/confirm/${P}_$OK; OUT=/verif/seeded/$P-$OK
mkdir -p /tmp/confirm $OUT; rm -rf $WT; git -C /repo worktree prune
git -C /repo worktree add --detach $WT HEAD -q || exit 9
cp $SRC/patch.diff $OUT/patch.diff; DEMO=$(ls $SRC/demo*.py | head -1); cp $DEMO $OUT/; cp $SRC/notes.md $OUT/notes.md 2>/dev/null
cd $WT
cp $DEMO $WT/demo_seed_tmp.py
timeout 900 /venv/bin/python demo_seed_tmp.py > $OUT/demo_orig.log 2>&1; A=$?
if git apply --check $SRC/patch.diff 2>/dev/null; then git apply $SRC/patch.diff; APPLIES=true; else APPLIES=false; fi
if $APPLIES; then
  timeout 900 /venv/bin/python demo_seed_tmp.py > $OUT/demo_patched.log 2>&1; B=$?; rm -f demo_seed_tmp.py
  if grep -q "broken: 0" $OUT/suite.log 2>/dev/null; then C=0; else /verif/tools/run_suite.sh $WT > $OUT/suite.log 2>&1; C=$?; fi
  (cd /verif && REPO=$WT timeout 1800 ./check $P > $OUT/check.log 2>&1); D=$?
else B=-1; C=-1; D=-1; fi
cd /; git -C /repo worktree remove --force $WT
python3 - <<PY
import json,re
log=open('$OUT/check.log').read() if $D!=-1 else ''
viol=[l for l in log.splitlines() if l.startswith('VIOLATION')]
obl=[l.strip() for l in log.splitlines() if l.strip().startswith('obligation ')]
meta=dict(property='$P',change=$OK,patch_applies_to_current_repo_head=('$APPLIES'=='true'),demo_exit_on_unchanged_tree=$A,demo_exit_with_patch=$B,
  existing_suite_with_patch=('broken: 0' if $C==0 else ('not run' if $C==-1 else 'BROKEN TESTS (see suite.log)')),
  check_cmd='REPO=<scratch worktree with the patch> ./check $P --tier quick',check_exit=$D,detected=bool(viol),violation_lines=viol[:3],failed_obligations=obl[:3],
  needs=open('$OUT/notes.md').read()[:1500] if __import__('os').path.exists('$OUT/notes.md') else '')
json.dump(meta,open('$OUT/meta.json','w'),indent=1)
print('$P-$OK','applies=$APPLIES','demo',$A,$B,'suite',$C,'check',$D,'detected',bool(viol))
PY
