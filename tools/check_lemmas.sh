#!/bin/bash
# re-checks the Lean proofs of the lemma schemas (lemmas/Lemmas.lean) with the installed Lean 4 + Mathlib; exit 0 = every theorem checked, no sorry
cd /verif/lemmas || exit 3
out=$(lean Lemmas.lean 2>&1); rc=$?
echo "$out" | grep -E "error|sorry" && exit 1
[ $rc -eq 0 ] && echo "Lemmas.lean: all theorems checked ($(grep -c '^theorem' Lemmas.lean) theorems)" && exit 0
echo "$out" | tail -5; exit 3
