#!/bin/bash
# usage: tools/try_patch.sh <patch.diff> <Cxx> [tier]   -- apply a patch to /repo, run the check, undo the patch straight afterwards
P=$(readlink -f "$1"); PROP=$2; TIER=${3:-quick}
git -C /repo apply "$P" || { echo "patch does not apply"; exit 9; }
timeout -s KILL 1500 /verif/check $PROP --tier $TIER > /tmp/try_patch.out 2>&1; rc=$?
git -C /repo checkout -- . 
cut -c1-400 /tmp/try_patch.out | grep -v "^  File\|^    " | tail -${LINES_OUT:-12}
echo "exit=$rc"
