#!/usr/bin/env python3
"""regenerates MANIFEST.json from contracts.PROPERTIES (claimed) + the static not-applicable table."""
import json, sys, os
sys.path.insert(0,os.path.dirname(os.path.dirname(os.path.abspath(__file__))))
props=[json.loads(l) for l in open('properties.jsonl')]
import importlib
C=importlib.import_module('contracts')
NA={'C03':"needs a formal SystemVerilog semantics and a compiler-correctness proof over string-emitting visitors; no contract within reach decides anything (DESIGN.md section 7)",
    'C14':"about eval / class-level __setattr__ rebinding / lazily created attributes; Python name resolution and string injectivity have no encoding here (DESIGN.md section 7)"}
checks=[]; na=[]
for p in props:
  pid=p['id']; m=C.PROPERTIES.get(pid)
  if m is None or m.get('disabled'):
    na.append(dict(property_id=pid,reason=NA.get(pid,"not reached yet: contracts for this property are still being built (DESIGN.md section 6); never replaced by another technique")))
    continue
  checks.append(dict(property_id=pid,quick_cmd=f"./check {pid} --tier quick",thorough_cmd=f"./check {pid} --tier thorough",
    evidence_file=f"/verif/evidence/{pid}.json",replay_cmd_template="./check --replay {path}",engine=m.get('engine','pyvc'),
    level_claimed=dict(category=m['level'],text=m['claim'],design_ref=m.get('design_ref','DESIGN.md section 6 '+pid)),
    level_note=m['note'],technique=m.get('technique','contract-based deductive verification: VCs generated from the real Python AST by symbolic execution against sidecar contracts, discharged by z3/cvc5')))
man=dict(version=1,setup_cmd="./setup.sh",
  hooks=dict(guard="PYMTL3_VERIF",enable="none needed: no source hooks in /repo; generated code is captured from the /verif side by wrapping the generator functions at run time",
             baseline_off_cmd="cd /repo && /venv/bin/python -m pytest -ra -q -p no:cacheprovider --timeout=900 --continue-on-collection-errors",
             source_commits=C.FIX_COMMITS,add_only=True),
  engines=[dict(name='pyvc',path='/verif/pyvc',serves_properties=[c['property_id'] for c in checks if c['engine']=='pyvc'],
                kind_free_text="home-made deductive verifier: Python ast of /repo's real functions -> symbolic execution with contracts at calls and invariants at loops -> SMT obligations (z3 5.1, cvc5 second) ; native executable contracts for replay/cover"),
           dict(name='rtlvc',path='/verif/rtlvc',serves_properties=[c['property_id'] for c in checks if c['engine']=='rtlvc'],
                kind_free_text="front-end of pyvc for elaborated RTL components: update-block ASTs of the real classes under bit-vector semantics derived from the Bits contracts; inductive invariants per configuration")],
  checks=checks,notes="see DESIGN.md; exit codes: 0 held / 1 violation (+replay) / 2 undecided / 3 checker error",not_applicable=na)
json.dump(man,open('MANIFEST.json','w'),indent=1)
print(len(checks),'checks;',len(na),'not applicable')
