"""Per-contract pipeline: extract -> VCs -> discharge -> (on failure) refutation search -> native replay;
plus native sampling of the executable contract (cover / CPython differential)."""
import importlib, sys, time, os, json, random, traceback, hashlib
from .contracts import Registry
from .colls import ConcreteList
from . import verify, runtime
from .symexec import IntT,BoolT,NoneT,OtherT,StrT,ObjT,SliceT,TupleT,ToolError,type_label
from .values import Unsupported

VERIF=os.path.dirname(os.path.dirname(os.path.abspath(__file__)))

def load_registry(repo='/repo'):
  reg=Registry(repo)
  reg.handlers.append(ConcreteList())
  from . import symcoll; symcoll.install(reg)
  if VERIF not in sys.path: sys.path.insert(0,VERIF)
  import contracts
  for modname in contracts.MODULES:
    m=importlib.import_module('contracts.'+modname)
    m.register(reg)
  return reg

# ------------------------------------------------------------------------------------------- native sampling
WIDTHS=[1,2,3,4,5,7,8,9,15,16,17,31,32,33,63,64,65,127,128,255,512,1022,1023]
def _ints_near(rng,n):
  c=[0,1,-1,2,-2,2**n-1,2**n,2**n+1,2**n-2,2**(n-1),2**(n-1)-1,-(2**(n-1)),-(2**(n-1))-1,-(2**(n-1))+1,n,n-1,n+1,
     rng.getrandbits(n),rng.getrandbits(n),-rng.getrandbits(n),rng.getrandbits(n+3),rng.getrandbits(max(n//2,1))]
  return rng.choice(c)
def sample_value(t,rng,n,repo,reg,name=''):
  if isinstance(t,IntT):
    if name in('nbits',) or name.endswith('nbits'): return rng.choice([n,n,n,n-1,n+1,0,-1,1,1023,1024,rng.choice(WIDTHS)])
    return _ints_near(rng,n)
  if isinstance(t,BoolT): return rng.random()<0.5
  if isinstance(t,NoneT): return None
  if isinstance(t,OtherT): return object()
  if isinstance(t,StrT): return 'x'
  if isinstance(t,SliceT):
    def part(p,k):
      v=sample_value(p,rng,n,repo,reg,k)
      if isinstance(p,IntT): v=rng.choice([0,0,1,n-1,n,n+1,-1,rng.randrange(0,n+1),rng.randrange(0,n+1),v if abs(v)<2*n+3 else 1])
      return v
    return slice(part(t.parts[0],'start'),part(t.parts[1],'stop'),part(t.parts[2],'step') if not isinstance(t.parts[2],IntT) else rng.choice([0,1,2,-1]))
  if isinstance(t,TupleT): return tuple(sample_value(p,rng,n,repo,reg) for p in t.parts)
  if isinstance(t,ObjT):
    nb=rng.choice([n,n,n,n,max(1,n-1),min(1023,n+1),rng.choice(WIDTHS)])
    if name=='self': nb=n
    model={}
    for f in t.fields:
      if f=='_nbits': model[f"x.{f}"]=nb
      else:
        model[f"x.{f}"]=rng.choice([0,1,2**nb-1,2**(nb-1),2**(nb-1)-1,rng.getrandbits(nb),rng.getrandbits(nb),rng.getrandbits(nb)])
    return runtime.build_value(t,'x',model,repo,reg)
  if hasattr(t,'sample'): return t.sample(rng,n,repo,reg)
  raise ValueError(t)

def sample_contract(reg,c,repo,seed,count):
  """run the real function on `count` sampled inputs per view variant and evaluate the contract natively.
  returns dict(evaluations, per_case, failures[list], skipped)."""
  if c.sample is False: return dict(evaluations=0,per_case={},failures=[],skipped=0)
  rng=random.Random((seed*1000003) ^ int(hashlib.sha256(c.key.encode()).hexdigest()[:8],16))
  ns=runtime.macro_namespace()
  per_case={cs.name:0 for cs in c.cases}; fails=[]; ev=0; skipped=0
  variants=c.variants()
  # native evaluation of quantified contracts is slow (nested loops over the object universe): the sampler stops after a wall-clock
  # budget per contract and reports how many evaluations it made
  t_end=time.time()+float(os.environ.get('VERIF_SAMPLE_BUDGET','90' if count<=200 else '900'))
  for variant in variants:
    for i in range(count):
      if time.time()>t_end and ev>=20: break
      n=rng.choice(WIDTHS)
      if c.sample is not None: args=c.sample(rng,n,variant,repo,reg)
      else: args={p:sample_value(t,rng,n,repo,reg,p) for p,t in variant.items()}
      if args is None: continue
      desc={p:runtime.describe(v) for p,v in args.items()}
      try: out=runtime.check_call(c,args,repo,ns)
      except Exception as e:
        fails.append(dict(args=desc,error=f"{type(e).__name__}: {e}")); continue
      ev+=1
      if out.skipped: skipped+=1; continue
      per_case[out.case]+=1
      if not out.ok and 'CallBudgetExceeded' in str(getattr(out,'exception','')):
        slow=locals().get('slow',0)+1
        if slow>=2:          # the real function does not return: two witnesses are enough, do not burn the budget on every sample
          aj=c.json_args[0](args) if getattr(c,'json_args',None) else None
          fails.append(dict(args=desc,case=out.case,failed=out.failed,args_json=aj)); return dict(evaluations=ev,per_case={k:max(v,1) for k,v in per_case.items()},failures=fails[:5],skipped=skipped)
      if not out.ok and len(fails)<5:
        aj=None
        if getattr(c,'json_args',None):
          try: aj=c.json_args[0](args)
          except Exception: aj=None
        fails.append(dict(args=desc,case=out.case,failed=out.failed,args_json=aj))
  if count and any(v==0 for v in per_case.values()) and not getattr(c,'_retry',False):
    # a case the sampler did not reach: one retry with a tenfold budget before the vacuity guard speaks
    c._retry=True
    try: r2=sample_contract(reg,c,repo,seed+7919,count*10)
    finally: c._retry=False
    for k,v in r2['per_case'].items(): per_case[k]=per_case.get(k,0)+v
    ev+=r2['evaluations']; fails+=r2['failures']; skipped+=r2['skipped']
  return dict(evaluations=ev,per_case=per_case,failures=fails[:5],skipped=skipped)

def run_standin(reg,c,repo):
  """bounded stand-in: the executable contract on the real function over the contract's stated finite input domain."""
  ns=runtime.macro_namespace(); ev=0; fails=[]; per_case={cs.name:0 for cs in c.cases}
  for args in c.standin_inputs(repo,reg):
    out=runtime.check_call(c,args,repo,ns); ev+=1
    if out.skipped: continue
    per_case[out.case]+=1
    if not out.ok:
      simple=all(isinstance(v,(int,bool,type(None))) for v in args.values())
      fails.append(dict(args={p:runtime.describe(v) for p,v in args.items()},args_json=(dict(args) if simple else None),case=out.case,failed=out.failed))
      if len(fails)>=200: break
  return dict(evaluations=ev,per_case=per_case,failures=fails,skipped=0,bound=c.bounded)

# ------------------------------------------------------------------------------------------- refutation
GRID=[1,2,3,4,5,8]
def default_pins(c,syms):
  names=[nm for nm,_ in syms]
  size=[nm for nm in names if nm=='self._nbits'] or [nm for nm in names if nm=='nbits'] or [nm for nm in names if nm.endswith('_nbits')][:1]
  if not size: return [{'__W__':16}]
  return [{size[0]:n,'__W__':2*n+8} for n in GRID]

def native_try(reg,c,repo,types,model):
  args={p:runtime.build_value(t,p,model,repo,reg) for p,t in types.items()}
  desc={p:runtime.describe(v) for p,v in args.items()}
  out=runtime.check_call(c,args,repo)
  return desc,out

def excluded(known,c,args_model,types,repo,reg):
  """is this concrete input inside the input class of an open known finding?  returns the finding or None."""
  for kf in known:
    if kf.get('status')!='open' or kf.get('contract')!=c.key: continue
    args={p:runtime.build_value(t,p,args_model,repo,reg) for p,t in types.items()}
    ns=runtime.macro_namespace(); ns.update(args)
    try:
      code,_=runtime.compile_expr(kf['input_class'])
      if eval(code,ns): return kf
    except Exception: pass
  return None

def refute(reg,c,o,repo,known,timeout_ms,only_variant=None):
  """search a concrete input that makes obligation o fail on the real code. returns dict or None."""
  tried=0
  def attempt(types,model,origin):
    nonlocal tried
    tried+=1
    try: desc,out=native_try(reg,c,repo,types,model)
    except Exception as e: return None
    if out.skipped or out.ok: return None
    kf=excluded(known,c,model,types,repo,reg)
    return dict(model=model,args=desc,native=out.__dict__,origin=origin,types={p:type_label(t) for p,t in types.items()},known=kf)
  found=[]
  if o.cex and o.cex.get('model') is not None and o.cex.get('types') is not None:
    r=attempt(o.cex['types'],o.cex['model'],'proof-mode model')
    if r:
      if not r['known']: return r
      found.append(r)
  # re-encode with the size symbol instantiated from the grid (quantifier- and UF-free, exact on the window)
  extra=[kf['exclude_requires'] for kf in known if kf.get('status')=='open' and kf.get('contract')==c.key and kf.get('exclude_requires')]
  probe_obls,_=verify.generate(reg,c,only_case=o.case,only_variant=only_variant)
  syms=[]
  for po in probe_obls:
    for q in po.queries: syms=q.syms; break
    if syms: break
  for pins in (c.refute_pins(syms) if getattr(c,'refute_pins',None) else default_pins(c,syms)):
    try: obls2,_=verify.generate(reg,c,pins=pins,only_case=o.case,extra_requires=extra,only_variant=only_variant)
    except (ToolError,Unsupported): continue
    for o2 in obls2:
      if o2.name!=o.name: continue
      for q in o2.queries:
        r,dt,solver,model=verify.solve_query(q,timeout_ms)
        if r!='sat': continue
        res=attempt(q.types,model,f"grid pins {pins}")
        if res:
          if not res['known']: return res
          found.append(res)
  if found: return found[0]
  return None

# ------------------------------------------------------------------------------------------- worker
def run_contract(args):
  repo,key,timeout_ms,seed,nsample,known=args[:6]
  only_variant=args[6] if len(args)>6 else None
  t0=time.time()
  import signal
  def _alarm(sig,frm): raise TimeoutError("contract worker exceeded its wall-clock budget")
  signal.signal(signal.SIGALRM,_alarm); signal.alarm(900 if timeout_ms<=20000 else 3600)
  out=dict(key=key,ok=True,obligations=[],error=None,unsupported=False)
  try:
    reg=load_registry(repo)
    c=reg.contracts[key]
    mod=c.module(reg)
    out['file']=c.file; out['qual']=c.qual
    out['ast_hash']=mod.ast_hash(c.qual); out['lines']=list(mod.lines(c.qual)); out['properties']=list(c.property_ids)
    out['expected_out_of_reach']=bool(c.bounded)
  except Exception as e:
    out.update(ok=False,error=f"{type(e).__name__}: {e}",trace=traceback.format_exc(),time=time.time()-t0); return out
  if c.bounded and c.standin_inputs is not None and getattr(c,'force_standin',False):
    out['standin']=run_standin(reg,c,repo); out['time']=time.time()-t0; return out
  try:
    obls,info=verify.generate(reg,c,only_variant=only_variant)
    out['info']=info
    verify.discharge(obls,timeout_ms)
    for o in obls:
      if o.status!='proved':
        r=refute(reg,c,o,repo,known,timeout_ms,only_variant)
        if r is not None:
          o.status='violated'; o.cex=r
        else:
          if o.cex: o.cex=dict(model=o.cex.get('model'),note=o.cex.get('note'),variant=o.cex.get('variant'),path=o.cex.get('path'))
          o.status='unproved'
    out['obligations']=[o.summary() for o in obls]
  except Unsupported as e:
    out.update(ok=False,unsupported=True,error=f"out of reach: {e}",trace=traceback.format_exc())
    if c.standin_inputs is not None and only_variant in (None,'<none>'):
      try: out['standin']=run_standin(reg,c,repo)
      except Exception as e2: out['standin']=dict(evaluations=0,per_case={},failures=[dict(error=f"{type(e2).__name__}: {e2}")],skipped=0,bound=c.bounded)
  except Exception as e:
    out.update(ok=False,error=f"{type(e).__name__}: {e}",trace=traceback.format_exc())
  if only_variant is not None and nsample==0:
    out['time']=time.time()-t0; return out
  # native sampling of the executable contract (cover + differential); also the stand-in if out of reach
  try:
    out['sampling']=sample_contract(reg,c,repo,seed,nsample)
  except Exception as e:
    out['sampling']=dict(evaluations=0,per_case={},failures=[dict(error=f"{type(e).__name__}: {e}",trace=traceback.format_exc()[-800:])],skipped=0)
  out['time']=time.time()-t0
  return out
