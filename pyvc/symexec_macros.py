"""contract-language macros: name -> (params, body source).  Shared by the symbolic and the native evaluator."""
MACROS={}
