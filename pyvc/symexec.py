"""Forward symbolic executor over the Python ast of real /repo functions.

Path splitting at branches, abrupt completion (exceptions, return, break, continue) as explicit
outcomes, calls resolved through contracts (never callee bodies), loops through sidecar invariants
(or complete unrolling when the iteration space is concrete).  See DESIGN.md section 3.2.
"""
import ast, itertools
import z3
from .values import *
from .theory import Theory

class ToolError(Exception):
  """a defect of the contract / engine (not of /repo): reported as CHECKER-ERROR (exit 3)."""

# ------------------------------------------------------------------------------------------------ state
class State:
  __slots__=('pc','env','heap','th','nextid','entry_env','entry_heap','vcs','ghost','notes','syms','depth')
  def __init__(s, th):
    s.pc=[]; s.env={}; s.heap={}; s.th=th; s.nextid=[1]; s.entry_env=None; s.entry_heap=None
    s.vcs=[]        # shared list: side obligations generated along the way (callpre, asserts)
    s.ghost={}; s.notes=[]; s.syms=[]; s.depth=0
  def fork(s, extra=None):
    n=State.__new__(State)
    n.pc=list(s.pc); n.env=dict(s.env); n.heap=dict(s.heap); n.th=s.th; n.nextid=s.nextid
    n.entry_env=s.entry_env; n.entry_heap=s.entry_heap; n.vcs=s.vcs; n.ghost=dict(s.ghost); n.notes=list(s.notes)
    n.syms=s.syms; n.depth=s.depth
    if extra is not None: n.pc.append(extra)
    return n
  def alloc(s, cls, fields=None):
    i=s.nextid[0]; s.nextid[0]+=1
    r=Ref(i,cls); s.heap[(i,'__class__')]=cls
    for k,v in (fields or {}).items(): s.heap[(i,k)]=v
    return r
  def fresh_int(s, name):
    c=z3.Int(f"{name}!{s.nextid[0]}"); s.nextid[0]+=1; return c
  def fresh_bool(s, name):
    c=z3.Bool(f"{name}!{s.nextid[0]}"); s.nextid[0]+=1; return c

_quick = None
def feasible(st, cond=None, timeout_ms=300):
  """cheap path pruning: quantifier-free check without lemma instances. unknown => keep (sound)."""
  s=z3.Solver(); s.set('timeout',timeout_ms)
  for p in st.pc: s.add(p)
  if cond is not None: s.add(cond)
  return s.check()!=z3.unsat

# ------------------------------------------------------------------------------------------------ helpers
def as_int(v):
  """int view of an int-like value (bool is an int)."""
  if isinstance(v,I): return v.t
  if isinstance(v,B): return z3.If(v.t,z3.IntVal(1),z3.IntVal(0))
  return None

def is_intlike(v): return isinstance(v,(I,B))

def const_int(t):
  t=z3.simplify(t)
  return t.as_long() if z3.is_int_value(t) else None

class Executor:
  def __init__(s, registry, module, theory=None, mode='prove'):
    s.reg=registry           # contracts.Registry
    s.mod=module             # ModuleInfo of the function under verification
    s.mode=mode
    s.spec=False             # evaluating a contract expression
    s.spec_env=None
    s.max_paths=4000
    s.npaths=0

  # ---------------------------------------------------------------------------------------------- truthiness
  def truth(s, v, st):
    """yield (st, z3 Bool | Exc)."""
    if isinstance(v,B): yield st, v.t
    elif isinstance(v,I): yield st, v.t!=0
    elif isinstance(v,NoneV): yield st, z3.BoolVal(False)
    elif isinstance(v,S):
      if v.py is not None: yield st, z3.BoolVal(bool(v.py))
      else: raise Unsupported("truthiness of opaque string")
    elif isinstance(v,Ref):
      m = s.reg.find_method(v.cls,'__bool__')
      if m is not None:
        for st2,r in s.call(Fn(v.cls+'.__bool__',v),[],{},st):
          if isinstance(r,Exc): yield st2,r
          else: yield from s.truth(r,st2)
      elif (v.id,'items') in st.heap:
        yield st, z3.BoolVal(len(st.heap[(v.id,'items')])>0)
      elif v.cls in('setlist','set') and (v.id,'arr') in st.heap:
        from .symcoll import EMPTY
        yield st, st.heap[(v.id,'arr')]!=EMPTY
      elif s.reg.find_method(v.cls,'__len__') is not None:
        raise Unsupported("truthiness via __len__")
      else: yield st, z3.BoolVal(True)
    elif isinstance(v,(Tup,)): yield st, z3.BoolVal(len(v.items)>0)
    elif isinstance(v,Opq) and z3.is_expr(v.t) and z3.is_app(v.t) and v.t.decl().name().startswith('attr_'):
      from . import symcoll
      yield st, z3.Function('opq_truthy',symcoll.Obj,z3.BoolSort())(v.t)       # the (unknown, fixed) truth value of an opaque attribute
    elif isinstance(v,(Cls,Fn,Other,SliceV,Opq)): yield st, z3.BoolVal(True)
    else: raise Unsupported(f"truthiness of {v!r}")

  def branch(s, st, c):
    """split st on boolean term c: yields (st_true, True) / (st_false, False) for feasible sides."""
    c=z3.simplify(c)
    if z3.is_true(c): yield st,True; return
    if z3.is_false(c): yield st,False; return
    if feasible(st,c): yield st.fork(c),True
    nc=z3.simplify(z3.Not(c))
    if feasible(st,nc): yield st.fork(nc),False

  # ---------------------------------------------------------------------------------------------- expressions
  def evs(s, exprs, st):
    """evaluate a list of expressions left to right: yield (st, [vals]) or (st, Exc)."""
    if not exprs: yield st,[]; return
    for st1,v in s.ev(exprs[0],st):
      if isinstance(v,Exc): yield st1,v; continue
      for st2,rest in s.evs(exprs[1:],st1):
        if isinstance(rest,Exc): yield st2,rest
        else: yield st2,[v]+rest

  def ev(s, e, st):
    m=getattr(s,'ev_'+type(e).__name__,None)
    if m is None: raise Unsupported(f"expression {type(e).__name__} at line {getattr(e,'lineno','?')}")
    yield from m(e,st)

  def ev_Constant(s,e,st):
    v=e.value
    if isinstance(v,bool): yield st,B(v)
    elif isinstance(v,int): yield st,I(v)
    elif v is None: yield st,NONE
    elif isinstance(v,str): yield st,S(v)
    else: raise Unsupported(f"constant {v!r}")

  def ev_Name(s,e,st):
    n=e.id
    if n in st.env: yield st,(s.freeze(st.env[n],st) if s.spec else st.env[n]); return
    if s.spec and s.spec_env is not None and n in s.spec_env: yield st,s.spec_env[n]; return
    g=s.lookup_global(n)
    if g is None and not s.spec and n in (getattr(getattr(s,'contract',None),'opaque_methods',None) or {}): g=Cls(n)
    if g is None and not s.spec and n in (getattr(getattr(s,'contract',None),'class_predicates',None) or {}): g=Cls(n)
    if g is None and not s.spec and ('issubclass:'+n) in (getattr(getattr(s,'contract',None),'class_predicates',None) or {}): g=Cls(n)
    if g is None and not s.spec and n in (getattr(getattr(s,'contract',None),'pure_functions',None) or ()): g=Fn(n)
    if g is None:
      if s.spec: raise ToolError(f"unbound name {n} in contract expression")
      raise Unsupported(f"global name {n} is not modelled (imported module / unknown object)")
    else: yield st,g

  def lookup_global(s,n):
    g=s.mod.globals.get(n) if s.mod else None
    if g is not None: return g
    fg=getattr(s.mod,'fn_globals',None)
    if fg is not None:
      c=getattr(s,'contract',None)
      if c is not None and n in fg.get(c.qual,{}): return fg[c.qual][n]
    if s.mod is not None and n in s.mod.functions: return Fn(n)
    if s.mod is not None and n in getattr(s.mod,'imported',()) and any(k.endswith('::'+n) for k in s.reg.contracts): return Fn(n)   # `from m import f` with f under contract
    if s.spec and n in SPEC_FUNS: return Fn(n)
    if n in BUILTIN_FNS: return Fn(n)
    if n in BUILTIN_CLS or n in EXC_PARENTS: return Cls(n)
    if s.reg.has_class(n): return Cls(n)
    return None

  def ev_JoinedStr(s,e,st):
    # f-string: evaluate the pieces for definedness/typing, result is an opaque string
    exprs=[v.value for v in e.values if isinstance(v,ast.FormattedValue)]
    for v in e.values:
      if isinstance(v,ast.FormattedValue) and v.format_spec is not None:
        exprs+= [w.value for w in v.format_spec.values if isinstance(w,ast.FormattedValue)]
    for st1,vals in s.evs(exprs,st):
      if isinstance(vals,Exc): yield st1,vals
      else: yield st1,S()

  def ev_Tuple(s,e,st):
    for st1,vals in s.evs(e.elts,st):
      if isinstance(vals,Exc): yield st1,vals
      else: yield st1,Tup(vals)

  def ev_Set(s,e,st):
    # { a, b, *S } : set display, starred elements are (symbolic) sets
    from . import symcoll
    for st1,vals in s.evs([x.value if isinstance(x,ast.Starred) else x for x in e.elts],st):
      if isinstance(vals,Exc): yield st1,vals; continue
      arr=symcoll.EMPTY; et=None
      for x,v in zip(e.elts,vals):
        if isinstance(x,ast.Starred):
          a2,t2=symcoll.setval(v,st1); arr=z3.SetUnion(arr,a2); et=et or t2
        else: arr=z3.Store(arr,symcoll.to_obj(v,st1),True)
      st2=st1.fork(); yield st2,st2.alloc('set',{'arr':arr,'elem':et or symcoll.ObjK()})
  def ev_Dict(s,e,st):
    from . import symcoll
    if e.keys: raise Unsupported(f"non-empty dict literal at line {e.lineno}")
    st=st.fork(); r=st.alloc('dict'); st.heap[(r.id,'dom')]=symcoll.EMPTY; st.heap[(r.id,'val')]=z3.K(symcoll.Obj,symcoll.Obj.none)
    st.heap[(r.id,'key')]=symcoll.ObjK(); st.heap[(r.id,'vt')]=symcoll.ObjK(); st.heap[(r.id,'default')]=None
    yield st,r
  def ev_List(s,e,st):
    for st1,vals in s.evs(e.elts,st):
      if isinstance(vals,Exc): yield st1,vals
      else:
        r=st1.alloc('list',{'items':tuple(vals)}); yield st1,r

  def ev_DictComp(s,e,st):
    # { v: <constant> for v in <set> } : a dict whose domain is the set and whose values are all the constant ([] -> empty abstracted list, int)
    from . import symcoll
    g=e.generators[0]
    if (len(e.generators)==1 and not g.ifs and isinstance(g.target,ast.Name) and isinstance(e.value,ast.Name) and e.value.id==g.target.id and isinstance(e.key,ast.Call)
        and isinstance(e.key.func,ast.Name) and e.key.func.id=='id' and len(e.key.args)==1 and isinstance(e.key.args[0],ast.Name) and e.key.args[0].id==g.target.id):
      # { id(v): v for v in <set> } : the inverse of id() on the set (id is injective on live objects: IDF/UNID with UNID(IDF(x)) == x)
      for st1,it in s.ev(g.iter,st):
        if isinstance(it,Exc): yield st1,it; continue
        dom,kt=symcoll.setval(it,st1)
        k=z3.Const('k!id',symcoll.Obj); x=symcoll.UNID(symcoll.Obj.ival(k))
        st2=st1.fork(); r=st2.alloc('dict')
        st2.heap[(r.id,'dom')]=z3.Lambda([k],z3.And(symcoll.Obj.is_ibox(k),z3.Select(dom,x),symcoll.IDF(x)==symcoll.Obj.ival(k)))
        st2.heap[(r.id,'val')]=z3.Lambda([k],x); st2.heap[(r.id,'key')]=IntT(); st2.heap[(r.id,'vt')]=kt or symcoll.ObjK(); st2.heap[(r.id,'default')]=None
        st2.pc.append(symcoll.id_axiom())
        yield st2,r
      return
    if len(e.generators)!=1 or g.ifs or not isinstance(g.target,ast.Name) or not isinstance(e.key,ast.Name) or e.key.id!=g.target.id: raise Unsupported("general dict comprehension")
    if any(isinstance(x,ast.Name) and x.id==g.target.id for x in ast.walk(e.value)): raise Unsupported("dict comprehension value depends on the key")
    for st1,it in s.ev(g.iter,st):
      if isinstance(it,Exc): yield st1,it; continue
      dom,kt=symcoll.setval(it,st1)
      for st2,v in s.ev(e.value,st1):
        if isinstance(v,Exc): yield st2,v; continue
        r=st2.alloc('dict'); st2.heap[(r.id,'dom')]=dom; st2.heap[(r.id,'key')]=kt or symcoll.ObjK(); st2.heap[(r.id,'default')]=None
        if isinstance(v,Ref) and v.cls=='list' and st2.heap.get((v.id,'items'))==():
          st2.heap[(r.id,'val')]=z3.K(symcoll.Obj,symcoll.EMPTY); st2.heap[(r.id,'vt')]=symcoll.SetOf(kt)
        elif is_intlike(v):
          st2.heap[(r.id,'val')]=z3.K(symcoll.Obj,as_int(v)); st2.heap[(r.id,'vt')]=IntT()
        else: raise Unsupported("dict comprehension value")
        yield st2,r

  def ev_ListComp(s,e,st):
    from . import symcoll
    g=e.generators[0] if len(e.generators)==1 else None
    if g is not None and isinstance(g.target,ast.Tuple) and all(isinstance(t,ast.Name) for t in g.target.elts) and len(g.target.elts)==2 \
       and isinstance(e.elt,ast.Name) and e.elt.id in [t.id for t in g.target.elts] and not g.is_async:
      # [ b for a, b in <set of pairs> if cond ]: the list of the selected components.  Only 'every selected element is in the list' is
      # recorded (the list may be assumed larger: an over-approximation, sound for code that only tests it for emptiness / raises on it)
      for st1,it in s.ev(g.iter,st):
        if isinstance(it,Exc): yield st1,it; continue
        if not _setlike(it,st1) and not (isinstance(it,Ref) and it.cls=='setlist'): raise Unsupported("comprehension with tuple target over a concrete sequence")
        dom,kt=symcoll.setval(it,st1)
        x=z3.Const(f"pairelem!c{st1.nextid[0]}",symcoll.Obj); st1.nextid[0]+=1
        st2=st1.fork(z3.And(z3.Select(dom,x),symcoll.Obj.is_pair(x)))
        comps=[Opq(symcoll.Obj.fst(x),'obj'),Opq(symcoll.Obj.snd(x),'obj')]
        for t,v in zip(g.target.elts,comps): st2.env[t.id]=v
        conds=[s._pure_cond(c,st2) for c in g.ifs]
        proj=comps[[t.id for t in g.target.elts].index(e.elt.id)].t
        A=z3.Const(f"comp!{st1.nextid[0]}",symcoll.SetSort); st1.nextid[0]+=1
        st3=st1.fork(z3.ForAll([x],z3.Implies(z3.And(z3.Select(dom,x),symcoll.Obj.is_pair(x),*conds),z3.Select(A,proj))))
        r=symcoll.new_setlist(st3,A,None); st3.heap[(r.id,'bag')]=True
        yield st3,r
      return
    if g is not None and isinstance(g.target,ast.Name) and isinstance(e.elt,ast.Name) and e.elt.id==g.target.id and not g.is_async:
      # [ v for v in <set> if cond(v) ] : the (duplicate-free, arbitrarily ordered) list of the members satisfying cond
      done=False
      for st1,it in s.ev(g.iter,st):
        if isinstance(it,Exc): yield st1,it; done=True; continue
        if not _setlike(it,st1) and not (isinstance(it,Ref) and it.cls=='setlist'): break
        done=True
        dom,kt=symcoll.setval(it,st1)
        x=z3.Const(f"{g.target.id}!c{st1.nextid[0]}",symcoll.Obj); st1.nextid[0]+=1
        st2=st1.fork(z3.Select(dom,x)); st2.env[g.target.id]=symcoll.from_obj(x,kt,st2); conds=[]
        for c in g.ifs: conds.append(s._pure_cond(c,st2))
        A=z3.Const(f"comp!{st1.nextid[0]}",symcoll.SetSort); st1.nextid[0]+=1
        st3=st1.fork(z3.ForAll([x],z3.Select(A,x)==z3.And(z3.Select(dom,x),*conds)))
        yield st3,symcoll.new_setlist(st3,A,kt)
      if done: return
    yield from s._ev_ListComp_concrete(e,st)

  def ev_SetComp(s,e,st):
    from . import symcoll
    g=e.generators[0] if len(e.generators)==1 else None
    if g is None or g.is_async or ast.dump(e.elt)!=ast.dump(_as_load(g.target)): raise Unsupported("general set comprehension")
    for st1,it in s.ev(g.iter,st):
      if isinstance(it,Exc): yield st1,it; continue
      dom,kt=symcoll.setval(it,st1)
      x=z3.Const(f"sc!{st1.nextid[0]}",symcoll.Obj); st1.nextid[0]+=1
      st2=st1.fork(symcoll.wf(x,kt) if kt is not None else z3.BoolVal(True)); st2.pc.append(z3.Select(dom,x))
      rs=list(s.assign(g.target,symcoll.from_obj(x,kt,st2),st2))
      if len(rs)!=1 or rs[0][1] is not None: raise Unsupported("comprehension target")
      st2=rs[0][0]; conds=[symcoll.wf(x,kt)] if kt is not None else []
      for c in g.ifs: conds.append(s._pure_cond(c,st2))
      A=z3.Const(f"scomp!{st1.nextid[0]}",symcoll.SetSort); st1.nextid[0]+=1
      st3=st1.fork(z3.ForAll([x],z3.Select(A,x)==z3.And(z3.Select(dom,x),*conds)))
      yield st3,st3.alloc('set',{'arr':A,'elem':kt or symcoll.ObjK()})

  def _pure_cond(s,c,st):
    """a comprehension filter as one boolean term: evaluated precisely if that yields a single outcome; a filter made only of
    membership tests / boolean connectives (no subscripts, no calls) is evaluated without short-circuit path splitting."""
    rs=list(s.ev(c,st))
    if len(rs)==1 and not isinstance(rs[0][1],Exc): return list(s.truth(rs[0][1],rs[0][0]))[0][1]
    if any(isinstance(x,(ast.Subscript,ast.Call)) for x in ast.walk(c)): raise Unsupported("comprehension filter with effects")
    old=s.spec; s.spec=True
    try: rs=list(s.ev(c,st))
    finally: s.spec=old
    return list(s.truth(rs[0][1],rs[0][0]))[0][1]

  def _ev_ListComp_concrete(s,e,st):
    # [ f(i) for i in <concrete iterable> ] : unrolled; the comprehension variable is local to the comprehension
    if len(e.generators)!=1 or e.generators[0].ifs or e.generators[0].is_async: raise Unsupported("general list comprehension")
    g=e.generators[0]
    for st1,it in s.ev(g.iter,st):
      if isinstance(it,Exc): yield st1,it; continue
      items=s.concrete_items(it,st1)
      if items is None or not isinstance(g.target,ast.Name): raise Unsupported("comprehension over a symbolic collection")
      def go(i,st,acc):
        if i==len(items):
          st2=st.fork(); st2.env.pop(g.target.id,None)
          if g.target.id in st.env and g.target.id in st1.env: st2.env[g.target.id]=st1.env[g.target.id]
          yield st2,st2.alloc('list',{'items':tuple(acc)}); return
        st2=st.fork(); st2.env[g.target.id]=items[i]
        for st3,v in s.ev(e.elt,st2):
          if isinstance(v,Exc): yield st3,v
          else: yield from go(i+1,st3,acc+[v])
      yield from go(0,st1,[])

  def ev_Slice(s,e,st):
    parts=[p if p is not None else ast.Constant(None) for p in (e.lower,e.upper,e.step)]
    for st1,vals in s.evs(parts,st):
      if isinstance(vals,Exc): yield st1,vals
      else: yield st1,SliceV(*vals)

  def ev_IfExp(s,e,st):
    for st1,c in s.ev(e.test,st):
      if isinstance(c,Exc): yield st1,c; continue
      for st2,t in s.truth(c,st1):
        if isinstance(t,Exc): yield st2,t; continue
        if s.spec:
          # contract expressions stay path-free: build an ite over both arms (only the live arm if the test is constant)
          t=z3.simplify(t)
          if z3.is_true(t): yield from s.ev(e.body,st2); continue
          if z3.is_false(t): yield from s.ev(e.orelse,st2); continue
          ra=list(s.ev(e.body,st2)); rb=list(s.ev(e.orelse,st2))
          if len(ra)!=1 or len(rb)!=1: raise ToolError("branching inside contract if-expression")
          a,b=ra[0][1],rb[0][1]
          yield st2,s.ite_val(t,a,b); continue
        for st3,side in s.branch(st2,t):
          yield from s.ev(e.body if side else e.orelse, st3)

  def ite_val(s,c,a,b):
    c=z3.simplify(c)
    if z3.is_true(c): return a
    if z3.is_false(c): return b
    if isinstance(a,B) and isinstance(b,B): return B(z3.If(c,a.t,b.t))
    if is_intlike(a) and is_intlike(b): return I(z3.If(c,as_int(a),as_int(b)))
    if type(a).__name__=='SetV' and type(b).__name__=='SetV':
      from .symcoll import SetV
      return SetV(z3.If(c,a.arr,b.arr),a.elem or b.elem)
    if isinstance(a,Opq) and isinstance(b,Opq): return Opq(z3.If(c,a.t,b.t),a.kind)
    raise ToolError(f"ite over non-scalar values {a!r} {b!r}")

  def ev_BoolOp(s,e,st):
    # Python semantics: returns the deciding operand, not a bool
    isand=isinstance(e.op,ast.And)
    if s.spec:
      # in contracts: pure boolean connective (no short-circuit needed since spec expressions are total)
      for st1,vals in s.evs(e.values,st):
        if isinstance(vals,Exc): raise ToolError(f"contract expression raised {vals}")
        ts=[]
        for v in vals:
          r=list(s.truth(v,st1))
          ts.append(r[0][1])
        yield st1,B(z3.And(*ts) if isand else z3.Or(*ts))
      return
    def go(i,st):
      for st1,v in s.ev(e.values[i],st):
        if isinstance(v,Exc) or i==len(e.values)-1: yield st1,v; continue
        for st2,t in s.truth(v,st1):
          if isinstance(t,Exc): yield st2,t; continue
          for st3,side in s.branch(st2,t):
            if side==isand: yield from go(i+1,st3)      # and: truthy -> continue; or: falsy -> continue
            else: yield st3,v
    yield from go(0,st)

  def ev_UnaryOp(s,e,st):
    for st1,v in s.ev(e.operand,st):
      if isinstance(v,Exc): yield st1,v; continue
      if isinstance(e.op,ast.Not):
        for st2,t in s.truth(v,st1):
          yield (st2,t) if isinstance(t,Exc) else (st2,B(z3.Not(t)))
      elif isinstance(e.op,ast.USub):
        if is_intlike(v): yield st1,I(-as_int(v))
        elif isinstance(v,Ref): yield from s.call_method(v,'__neg__',[],st1)
        else: yield st1,Exc('TypeError','unary -')
      elif isinstance(e.op,ast.UAdd):
        if is_intlike(v): yield st1,I(as_int(v))
        else: yield st1,Exc('TypeError','unary +')
      elif isinstance(e.op,ast.Invert):
        if is_intlike(v): yield st1,I(-as_int(v)-1)
        elif isinstance(v,Ref): yield from s.call_method(v,'__invert__',[],st1)
        else: yield st1,Exc('TypeError','unary ~')
      else: raise Unsupported("unary op")

  BINOP_METHODS={ast.Add:'add',ast.Sub:'sub',ast.Mult:'mul',ast.FloorDiv:'floordiv',ast.Mod:'mod',
                 ast.BitAnd:'and',ast.BitOr:'or',ast.BitXor:'xor',ast.LShift:'lshift',ast.RShift:'rshift',
                 ast.MatMult:'matmul',ast.Pow:'pow',ast.Div:'truediv'}

  def ev_BinOp(s,e,st):
    for st1,vals in s.evs([e.left,e.right],st):
      if isinstance(vals,Exc): yield st1,vals
      else: yield from s.binop(type(e.op),vals[0],vals[1],st1)

  def binop(s,op,a,b,st):
    th=st.th
    if is_intlike(a) and is_intlike(b):
      x,y=as_int(a),as_int(b)
      if op is ast.Add: yield st,I(x+y)
      elif op is ast.Sub: yield st,I(x-y)
      elif op is ast.Mult and _pow2_arg(y) is not None: yield st,I(th.shl(x,_pow2_arg(y)))      # x * 2**k is the shift idiom
      elif op is ast.Mult and _pow2_arg(x) is not None: yield st,I(th.shl(y,_pow2_arg(x)))
      elif op is ast.Mult: yield st,I(x*y)
      elif op in (ast.FloorDiv,ast.Mod) and _pow2_arg(y) is not None:
        # x // 2**k and x % 2**k (also written with 1 << k): the same idiom terms as >> and the mask, never a non-linear division
        k=_pow2_arg(y); yield st,I(th.divp(x,k) if op is ast.FloorDiv else th.modp(x,k))
      elif op in (ast.FloorDiv,ast.Mod) and s.spec:
        q=z3.If(y>0, x/y, (-x)/(-y))             # contract expressions: total, value for y==0 unspecified
        yield st,I(q if op is ast.FloorDiv else x-y*q)
      elif op in (ast.FloorDiv,ast.Mod):
        for st1,z in s.branch(st,y==0):
          if z: yield st1,Exc('ZeroDivisionError'); continue
          q=z3.If(y>0, x/y, (-x)/(-y))           # Python floor division
          if op is ast.FloorDiv: yield st1,I(q)
          else: yield st1,I(x-y*q)
      elif op is ast.BitAnd: yield st,I(th.band(x,y))
      elif op is ast.BitOr:  yield st,I(th.bor(x,y))
      elif op is ast.BitXor: yield st,I(th.bxor(x,y))
      elif op in (ast.LShift,ast.RShift):
        for st1,neg in s.branch(st,y<0):
          if neg: yield st1,Exc('ValueError','negative shift count'); continue
          yield st1,I(th.shl(x,y) if op is ast.LShift else th.shr(x,y))
      elif op is ast.Pow:
        if const_int(x)==2:
          for st1,neg in s.branch(st,y<0):
            if neg: raise Unsupported("2**negative (float)")
            yield st1,I(th.pow2(y))
        else: raise Unsupported("general **")
      else: raise Unsupported(f"int binop {op.__name__}")
      return
    name=s.BINOP_METHODS.get(op)
    if _setlike(a,st) and _setlike(b,st) and op in (ast.BitOr,ast.Sub,ast.BitAnd):
      from . import symcoll
      x,et=symcoll.setval(a,st); y,et2=symcoll.setval(b,st)
      f={ast.BitOr:z3.SetUnion,ast.Sub:z3.SetDifference,ast.BitAnd:z3.SetIntersect}[op]
      yield st,symcoll.SetV(f(x,y),et or et2); return
    if isinstance(a,S) and isinstance(b,S) and op is ast.Add:
      yield st,S(a.py+b.py if a.py is not None and b.py is not None else None); return
    if isinstance(a,S) and op is ast.Mod:        # "..." % args  -> opaque string
      yield st,S(); return
    if isinstance(a,Ref) and s.reg.find_method(a.cls,f'__{name}__') is not None:
      yield from s.call_method(a,f'__{name}__',[b],st); return
    if isinstance(b,Ref) and s.reg.find_method(b.cls,f'__r{name}__') is not None:
      yield from s.call_method(b,f'__r{name}__',[a],st); return
    yield st,Exc('TypeError',f"unsupported operand type(s) for {name}: {a!r} and {b!r}")

  CMP_METHODS={ast.Eq:('__eq__','__eq__'),ast.NotEq:('__ne__','__ne__'),ast.Lt:('__lt__','__gt__'),
               ast.LtE:('__le__','__ge__'),ast.Gt:('__gt__','__lt__'),ast.GtE:('__ge__','__le__')}

  def ev_Compare(s,e,st):
    # a < b < c  ==  (a<b) and (b<c) with b evaluated once
    def go(left,i,st):
      for st1,right in s.ev(e.comparators[i],st):
        if isinstance(right,Exc): yield st1,right; continue
        for st2,r in s.compare(type(e.ops[i]),left,right,st1):
          if isinstance(r,Exc) or i==len(e.ops)-1: yield st2,r; continue
          for st3,t in s.truth(r,st2):
            if isinstance(t,Exc): yield st3,t; continue
            if s.spec:
              rest=list(go(right,i+1,st3))
              if len(rest)!=1: raise ToolError("branching in contract comparison")
              rr=list(s.truth(rest[0][1],rest[0][0]))[0][1]
              yield st3,B(z3.And(t,rr)); continue
            for st4,side in s.branch(st3,t):
              if side: yield from go(right,i+1,st4)
              else: yield st4,r
    for st0,left in s.ev(e.left,st):
      if isinstance(left,Exc): yield st0,left; continue
      yield from go(left,0,st0)

  def compare(s,op,a,b,st):
    s._cur_st=st
    if op in (ast.Is,ast.IsNot):
      same=s.identical(a,b)
      if same is None: raise Unsupported(f"is-comparison of {a!r} and {b!r}")
      yield st,B(same if op is ast.Is else z3.Not(same)); return
    if op in (ast.In,ast.NotIn):
      yield from s.contains(b,a,st,negate=(op is ast.NotIn)); return
    if is_intlike(a) and is_intlike(b):
      x,y=as_int(a),as_int(b)
      r={ast.Eq:x==y,ast.NotEq:x!=y,ast.Lt:x<y,ast.LtE:x<=y,ast.Gt:x>y,ast.GtE:x>=y}[op]
      yield st,B(r); return
    if op in (ast.Eq,ast.NotEq) and _setlike(a,st) and _setlike(b,st):
      from . import symcoll
      t=symcoll.setval(a,st)[0]==symcoll.setval(b,st)[0]
      yield st,B(t if op is ast.Eq else z3.Not(t)); return
    if op in (ast.Eq,ast.NotEq) and type(a).__name__=='DictV' and type(b).__name__=='DictV':
      k=z3.Const('k!deq',a.dom.domain())
      t=z3.And(a.dom==b.dom, z3.ForAll([k],z3.Implies(z3.Select(a.dom,k),z3.Select(a.val,k)==z3.Select(b.val,k))))
      yield st,B(t if op is ast.Eq else z3.Not(t)); return
    m,rm=s.CMP_METHODS[op]
    if isinstance(a,Ref) and s.reg.find_method(a.cls,m) is not None:
      yield from s.call_method(a,m,[b],st); return
    if isinstance(b,Ref) and s.reg.find_method(b.cls,rm) is not None:
      yield from s.call_method(b,rm,[a],st); return
    if op in (ast.Eq,ast.NotEq):
      same=s.identical(a,b)
      if isinstance(a,NoneV) or isinstance(b,NoneV):
        yield st,B(same if op is ast.Eq else z3.Not(same)); return
      if isinstance(a,S) and isinstance(b,S) and a.py is not None and b.py is not None:
        yield st,B((a.py==b.py)==(op is ast.Eq)); return
      if isinstance(a,Opq) and isinstance(b,Opq) and z3.is_expr(a.t) and z3.is_expr(b.t) and a.t.sort()==b.t.sort():      # kinds are labels; objects compare by identity
        yield st,B((a.t==b.t) if op is ast.Eq else (a.t!=b.t)); return
      la=s.seq_items(a,st); lb=s.seq_items(b,st)
      if la is not None and lb is not None and type(a)==type(b):
        if len(la)!=len(lb): yield st,B(op is ast.NotEq); return
        def go(i,st):
          # element-wise ==, first difference decides (identity implies equality, as in CPython)
          if i==len(la): yield st,B(op is ast.Eq); return
          if isinstance(la[i],Ref) and isinstance(lb[i],Ref) and la[i].id==lb[i].id: yield from go(i+1,st); return
          for st1,r in s.compare(ast.Eq,la[i],lb[i],st):
            if isinstance(r,Exc): yield st1,r; continue
            for st2,t in s.truth(r,st1):
              if isinstance(t,Exc): yield st2,t; continue
              for st3,side in s.branch(st2,t):
                if side: yield from go(i+1,st3)
                else: yield st3,B(op is ast.NotEq)
        yield from go(0,st); return
      if type(a)!=type(b) and not isinstance(a,(Ref,Opq)) and not isinstance(b,(Ref,Opq)):
        yield st,B(op is ast.NotEq); return
    if op in (ast.Lt,ast.LtE,ast.Gt,ast.GtE) and (isinstance(a,NoneV) or isinstance(b,NoneV) or isinstance(a,Other) or isinstance(b,Other)):
      yield st,Exc('TypeError','ordering comparison'); return
    raise Unsupported(f"comparison {op.__name__} of {a!r} and {b!r}")

  def seq_items(s,v,st):
    if isinstance(v,Tup): return list(v.items)
    if isinstance(v,Ref) and v.cls=='list' and (v.id,'items') in st.heap: return list(st.heap[(v.id,'items')])
    return None

  def identical(s,a,b):
    """z3 Bool for `a is b` (None/bool/small-int identity is value identity here) or None if unknown."""
    for x,y in ((a,b),(b,a)):
      if isinstance(x,NoneV) and isinstance(y,Opq) and z3.is_expr(y.t) and str(y.t.sort())=='Obj':
        from . import symcoll
        return y.t==symcoll.Obj.none          # an element of a symbolic collection may be None
    for x,y in ((a,b),(b,a)):
      if isinstance(x,Opq) and isinstance(y,Ref) and z3.is_expr(x.t) and str(x.t.sort())=='Obj' and getattr(s,'_cur_st',None) is not None and (y.id,'__ident__') in s._cur_st.heap:
        return x.t==s._cur_st.heap[(y.id,'__ident__')]
    if isinstance(a,NoneV) or isinstance(b,NoneV): return z3.BoolVal(isinstance(a,NoneV) and isinstance(b,NoneV))
    if isinstance(a,Ref) and isinstance(b,Ref): return z3.BoolVal(a.id==b.id)
    if isinstance(a,Cls) and isinstance(b,Cls): return z3.BoolVal(a.name==b.name)
    if isinstance(a,B) and isinstance(b,B): return a.t==b.t
    if isinstance(a,Opq) and isinstance(b,Opq) and a.kind==b.kind: return a.t==b.t
    if isinstance(a,Opq) and isinstance(b,Opq) and z3.is_expr(a.t) and z3.is_expr(b.t) and a.t.sort()==b.t.sort(): return a.t==b.t
    if type(a)!=type(b): return z3.BoolVal(False)
    return None

  def contains(s,container,x,st,negate=False):
    if isinstance(container,Tup):
      acc=[]
      for y in container.items:
        rs=list(s.compare(ast.Eq,x,y,st))
        if len(rs)!=1 or isinstance(rs[0][1],Exc): raise Unsupported("membership with effects")
        acc.append(list(s.truth(rs[0][1],st))[0][1])
      t=z3.Or(*acc) if acc else z3.BoolVal(False)
      yield st,B(z3.Not(t) if negate else t); return
    if isinstance(container,Opq) and container.kind=='os.environ':
      yield st,B(bool(negate)); return          # debugging environment variables are assumed unset (recorded assumption)
    if isinstance(container,Opq) and z3.is_expr(container.t) and str(container.t.sort())=='Obj' and getattr(getattr(s,'contract',None),'opaque_attrs',False):
      from . import symcoll
      t=z3.Function('opq_member',symcoll.Obj,symcoll.Obj,z3.BoolSort())(container.t,symcoll.to_obj(x,st))      # a pure relation (assumption, as for attributes)
      yield st,B(z3.Not(t) if negate else t); return
    h=s.reg.coll_handler(container,st)
    if h is not None:
      yield from h.contains(s,container,x,st,negate); return
    if type(container).__name__ in('SetV','DictSlot','DictV'):
      from . import symcoll
      arr=container.dom if type(container).__name__=='DictV' else symcoll.setval(container,st)[0]
      t=z3.Select(arr,symcoll.to_obj(x,st)); yield st,B(z3.Not(t) if negate else t); return
    raise Unsupported(f"membership in {container!r}")

  def ev_Attribute(s,e,st):
    for st1,o in s.ev(e.value,st):
      if isinstance(o,Exc): yield st1,o; continue
      for st2,v in s.getattr(o,e.attr,st1):
        yield st2,(s.freeze(v,st2) if s.spec else v)

  def freeze(s,v,st):
    """contract expressions see collections as immutable values of the heap they are evaluated in."""
    if isinstance(v,Ref) and v.cls=='set' and (v.id,'arr') in st.heap:
      from .symcoll import SetV
      return SetV(st.heap[(v.id,'arr')],st.heap[(v.id,'elem')])
    if isinstance(v,Ref) and v.cls=='dict' and (v.id,'dom') in st.heap:
      from .symcoll import DictV
      return DictV(st.heap[(v.id,'dom')],st.heap[(v.id,'val')],st.heap[(v.id,'key')],st.heap[(v.id,'vt')])
    return v

  def getattr(s,o,attr,st):
    if isinstance(o,Opq) and z3.is_expr(o.t) and str(o.t.sort())=='Obj' and getattr(getattr(s,'contract',None),'opaque_attrs',False):
      # attribute of an opaque framework object: a pure function of the object (assumption: the pass does not mutate it), e.g. w._dsl.Type
      from . import symcoll
      uf=z3.Function('attr_'+attr,symcoll.Obj,symcoll.Obj); yield st,Opq(uf(o.t),'obj'); return
    if type(o).__name__=='Mod':
      if (o.name,attr)==('random','shuffle'): yield st,Fn('random.shuffle'); return
      if (o.name,attr)==('os','environ'): yield st,Opq(z3.IntVal(0),'os.environ'); return
      raise Unsupported(f"module attribute {o.name}.{attr}")
    if isinstance(o,Ref) and attr=='__class__' and not o.cls.startswith(('list','set','dict','range','exc:')):
      yield st,Cls(o.cls); return
    if isinstance(o,Cls) and o.name in s.reg.gen_classes:
      g=s.reg.gen_classes[o.name]
      if attr in g['attrs']: yield st,g['attrs'][attr]; return
      if attr in g['classmethods']: yield st,Fn(f'{o.name}.{attr}',o); return
      if attr in g['methods']: yield st,Fn(f'{o.name}.{attr}'); return
      if attr=='__name__': yield st,S(o.name); return
      yield st,Exc('AttributeError',f'{o.name}.{attr}'); return
    if isinstance(o,SuperV):
      yield st,Fn(f'{o.parent}.{attr}',o.selfv); return
    if isinstance(o,ClsN):
      if attr=='nbits': yield st,I(o.n); return
      yield st,Fn(f'{o.base}.{attr}'); return
    if isinstance(o,Ref):
      if (o.id,attr) in st.heap: yield st,st.heap[(o.id,attr)]; return
      if s.spec:
        p=s.reg.find_property(o.cls,attr)
        if p is None: raise ToolError(f"contract reads unset field {o.cls}.{attr}")
      kind=s.reg.attr_kind(o.cls,attr)
      if kind=='property':
        yield from s.call(Fn(f'{o.cls}.{attr}',o),[],{},st); return
      if kind=='method': yield st,Fn(f'{o.cls}.{attr}',o); return
      if kind=='field-unset' or kind is None:
        h=s.reg.coll_handler(o,st)
        if h is not None and h.has_method(attr): yield st,Fn(f'{o.cls}.{attr}',o); return
        yield st,Exc('AttributeError',f'{o.cls}.{attr}'); return
    if isinstance(o,SliceV) and attr in('start','stop','step'): yield st,getattr(o,attr); return
    if isinstance(o,(I,B,NoneV,Other,S,Tup)):
      if isinstance(o,(I,B)) and attr=='bit_length': yield st,Fn('int.bit_length',o); return
      if isinstance(o,S) and attr in('format','join','zfill'): yield st,Fn('str.'+attr,o); return
      yield st,Exc('AttributeError',f'{type(o).__name__}.{attr}'); return
    if isinstance(o,Cls):
      if o.name=='object' and attr=='__new__': yield st,Fn('object.__new__'); return
      yield st,Fn(f'{o.name}.{attr}'); return
    if type(o).__name__=='DictSlot':
      from .symcoll import SlotOps
      if attr in SlotOps.METHODS: yield st,Fn(f'slot.{attr}',o); return
    if isinstance(o,Opq):
      r=s.reg.opaque_attr(o,attr,st)
      if r is not None: yield st,r; return
    raise Unsupported(f"attribute {attr} of {o!r}")

  def ev_Subscript(s,e,st):
    for st1,vals in s.evs([e.value,e.slice],st):
      if isinstance(vals,Exc): yield st1,vals
      else: yield from s.getitem(vals[0],vals[1],st1)

  def getitem(s,o,idx,st):
    if type(o).__name__=='DictV':
      from . import symcoll
      k=symcoll.to_obj(idx,st); v=z3.Select(o.val,k)
      yield st,(symcoll.SetV(v,o.vt.elem) if isinstance(o.vt,symcoll.SetOf) else symcoll.from_obj(v,o.vt,st)); return
    if isinstance(o,Table):
      if isinstance(idx,Ref):   # Bits index -> __index__
        for st1,r in s.call_method(idx,'__index__',[],st):
          if isinstance(r,Exc): yield st1,r
          else: yield from s.getitem(o,r,st1)
        return
      if not is_intlike(idx): yield st,Exc('TypeError','list index'); return
      i=as_int(idx)
      for st1,ok in s.branch(st,z3.And(i>=0,i<o.n)):
        if ok: yield st1,o.spec(s,i,st1); continue
        for st2,neg in s.branch(st1,z3.And(i<0,i>=-o.n)):
          if neg: yield st2,o.spec(s,i+o.n,st2)
          else: yield st2,Exc('IndexError',o.name)
      return
    if isinstance(o,Tup) or (isinstance(o,Ref) and (o.id,'items') in st.heap):
      items=o.items if isinstance(o,Tup) else st.heap[(o.id,'items')]
      if isinstance(idx,SliceV):
        lo,hi,step=[None if isinstance(x,NoneV) else const_int(as_int(x)) for x in (idx.start,idx.stop,idx.step)]
        r=items[slice(lo,hi,step)]
        yield st,(Tup(r) if isinstance(o,Tup) else st.alloc('list',{'items':tuple(r)})); return
      if not is_intlike(idx): yield st,Exc('TypeError','index'); return
      c=const_int(as_int(idx))
      if c is not None:
        if -len(items)<=c<len(items): yield st,items[c]
        else: yield st,Exc('IndexError')
        return
      i=as_int(idx); n=len(items)
      for k in range(n):
        cond=z3.Or(i==k,i==k-n)
        if feasible(st,cond): yield st.fork(cond),items[k]
      oob=z3.Or(i>=n,i<-n)
      if feasible(st,oob): yield st.fork(oob),Exc('IndexError')
      return
    if isinstance(o,Ref):
      h=s.reg.coll_handler(o,st)
      if h is not None: yield from h.getitem(s,o,idx,st); return
      if s.reg.find_method(o.cls,'__getitem__') is not None:
        yield from s.call_method(o,'__getitem__',[idx],st); return
    if type(o).__name__=='DictSlot' and is_intlike(idx) and z3.is_int_value(z3.simplify(as_int(idx))) and z3.simplify(as_int(idx)).as_long() in(0,-1):
      from . import symcoll
      arr=symcoll.slot_arr(o,st)
      for st1,empty in s.branch(st,arr==symcoll.EMPTY):
        if empty: yield st1,Exc('IndexError','list index out of range'); continue
        e_=z3.Const(f"item!{st1.nextid[0]}",symcoll.Obj); st1.nextid[0]+=1
        st2=st1.fork(z3.Select(arr,e_)); yield st2,symcoll.from_obj(e_,o.elem,st2)
      return
    if isinstance(o,Opq) and z3.is_expr(o.t) and str(o.t.sort())=='Obj' and o.kind!='any' and getattr(getattr(s,'contract',None),'opaque_attrs',False):
      from . import symcoll
      yield st,Opq(z3.Function('opq_item',symcoll.Obj,symcoll.Obj,symcoll.Obj)(o.t,symcoll.to_obj(idx,st)),'obj'); return       # pure function (assumption)
    if isinstance(o,Opq) and o.kind=='any':       # opaque data the property does not depend on (assumed not to raise; listed with the opaque methods)
      from . import symcoll
      st2=st.fork(); yield st2,mk_value(symcoll.ObjK('any'),"item@any",st2,True); return
    raise Unsupported(f"subscript of {o!r}")

  def ev_Call(s,e,st):
    if any(isinstance(a,ast.Starred) for a in e.args) or any(k.arg is None for k in e.keywords):
      raise Unsupported("star-args in call")
    # spec-only forms that need unevaluated arguments
    if s.spec and isinstance(e.func,ast.Name) and e.func.id in SPEC_FORMS:
      yield from SPEC_FORMS[e.func.id](s,e,st); return
    # accessor methods of framework objects declared in the contract view: top.get_all_update_ff() is the field 'get_all_update_ff()'
    if isinstance(e.func,ast.Attribute) and not e.args and not e.keywords:
      hit=False
      for st1,o in s.ev(e.func.value,st):
        if isinstance(o,Ref) and (o.id,e.func.attr+'()') in st1.heap:
          hit=True; v=st1.heap[(o.id,e.func.attr+'()')]; yield st1,(s.freeze(v,st1) if s.spec else v)
        else: break
      if hit: return
    if isinstance(e.func,ast.Name) and e.func.id in('sorted','enumerate','reversed') and e.args and not s.spec and e.func.id not in st.env:
      # sorted / reversed of a collection abstracted by its element set is that collection (any key function); enumerate pairs each
      # element with an index the abstraction does not track
      for st1,v in s.ev(e.args[0],st):
        if isinstance(v,Exc): yield st1,v; continue
        from . import symcoll
        if isinstance(v,Ref) and v.cls=='setlist':
          yield st1,(symcoll.EnumV(v) if e.func.id=='enumerate' else v); continue
        if e.func.id=='enumerate' and isinstance(v,Ref) and v.cls=='dict' and isinstance(st1.heap.get((v.id,'key')),IntT):
          yield st1,symcoll.DictIter(v,'items'); continue          # a list viewed as {index: element} (positions matter to the code)
        if _setlike(v,st1) and e.func.id=='sorted':
          arr,et=symcoll.setval(v,st1); st2=st1.fork(); yield st2,symcoll.new_setlist(st2,arr,et); continue
        raise Unsupported(f"{e.func.id}() of {v!r}")
      return
    pm=getattr(getattr(s,'contract',None),'pure_methods',None)
    if pm and isinstance(e.func,ast.Attribute) and e.func.attr in pm and not s.spec:
      # a method the contract declares pure (assumption, listed in the evidence): a total, deterministic function of the receiver and the
      # arguments - the same uninterpreted function as the spec function of that name
      for st1,vals in s.evs([e.func.value]+list(e.args),st):
        if isinstance(vals,Exc): yield st1,vals; continue
        yield st1,SPEC_FUNS[e.func.attr](s,vals,st1)
      return
    om=getattr(getattr(s,'contract',None),'opaque_methods',None)
    if om and isinstance(e.func,ast.Attribute) and e.func.attr in om and not s.spec:
      # a method the contract declares opaque (assumption, listed in the evidence): pure, does not raise, returns a value of the stated spec type
      for st1,vals in s.evs([e.func.value]+list(e.args)+[k.value for k in e.keywords],st):
        if isinstance(vals,Exc): yield st1,vals; continue
        st2=st1.fork(); yield st2,mk_value(om[e.func.attr],f"{e.func.attr}@{e.lineno}",st2,True)
      return
    for st1,f in s.ev(e.func,st):
      if isinstance(f,Exc): yield st1,f; continue
      for st2,vals in s.evs(list(e.args)+[k.value for k in e.keywords],st1):
        if isinstance(vals,Exc): yield st2,vals; continue
        args=vals[:len(e.args)]; kw={k.arg:v for k,v in zip(e.keywords,vals[len(e.args):])}
        yield from s.call(f,args,kw,st2,node=e)

  def call_method(s,obj,name,args,st):
    yield from s.call(Fn(f'{obj.cls}.{name}',obj),args,{},st)

  # ---------------------------------------------------------------------------------------------- calls
  def call(s,f,args,kw,st,node=None):
    if isinstance(f,ClsN):
      # generated fixed-width subclass (bits_import template, verified separately): BitsN(v, trunc_int=..) == Bits.__init__(N, v, trunc_int)
      yield from s.call_contract(f'{f.base}.__init__',None,[I(f.n)]+list(args),kw,st,ctor=f.base); return
    if isinstance(f,Cls):
      om=getattr(getattr(s,'contract',None),'opaque_methods',None)
      if om and f.name in om:
        st2=st.fork(); yield st2,mk_value(om[f.name],f"{f.name}()",st2,True); return
      if f.name in EXC_PARENTS or s.reg.is_exception(f.name):
        yield st,st.alloc('exc:'+f.name); return
      if f.name in BUILTIN_CLS:
        yield from BUILTIN_CLS[f.name](s,args,kw,st); return
      # constructor of a class under contract
      yield from s.call_contract(f'{f.name}.__init__',None,args,kw,st,ctor=f.name); return
    if not isinstance(f,Fn): yield st,Exc('TypeError',f'{f!r} not callable'); return
    if f.name in SPEC_FUNS and (s.spec or f.name in (getattr(getattr(s,'contract',None),'pure_functions',None) or ())):
      yield st,SPEC_FUNS[f.name](s,args,st); return
    if f.name in BUILTIN_FNS:
      yield from BUILTIN_FNS[f.name](s,f,args,kw,st); return
    if f.self is not None and type(f.self).__name__=='DictSlot':
      from .symcoll import SlotOps
      st2,r=SlotOps.apply(s,f.self,f.name.split('.')[-1],args,st); yield st2,r; return
    if f.self is not None and isinstance(f.self,Ref):
      h=s.reg.coll_handler(f.self,st)
      if h is not None and h.has_method(f.name.split('.')[-1]):
        yield from h.call(s,f.self,f.name.split('.')[-1],args,kw,st); return
    yield from s.call_contract(f.name,f.self,args,kw,st)

  def call_contract(s,name,selfv,args,kw,st,ctor=None):
    """modular call: assert the callee's precondition, assume its postcondition."""
    c=s.reg.contract_for(name, s.mod)
    if c is None: raise Unsupported(f"call to {name} which has no contract")
    params=c.param_names()
    argv=list(args)
    if ctor is not None:
      selfv=st.alloc(ctor);
    if selfv is not None and params and '.' in c.qual: argv=[selfv]+argv      # bound method / classmethod (selfv is the Cls)
    env=c.bind(params,argv,kw,s)
    if isinstance(env,Exc): yield st,env; return
    tags={p:type_tag(v,st) for p,v in env.items()}
    cases=[cs for cs in c.cases if cs.applies(tags)]
    if not cases:
      raise Unsupported(f"no contract case of {name} covers argument types {tags}")
    sub=Executor(s.reg,c.module(s.reg),mode=s.mode); sub.spec=True
    reqs=[]
    for cs in cases:
      r=sub.spec_bool(cs.requires,env,st,st.heap,None)
      reqs.append(r)
    # callpre obligation: some case applies
    st.vcs.append(('callpre',f"{name}",list(st.pc),z3.Or(*reqs) if reqs else z3.BoolVal(False),st))
    for cs,r in zip(cases,reqs):
      r=z3.simplify(r)
      if z3.is_false(r) or not feasible(st,r): continue
      st1=st.fork(r)
      if cs.raises is not None:
        yield st1,Exc(cs.raises_today or cs.raises,f"from {name}"); continue
      pre_heap=dict(st1.heap)
      # havoc the frame
      for loc in (cs.modifies if cs.modifies is not None else c.modifies):
        havoc_keys(resolve_locs(loc,env,st1.heap),st1,loc)
      if c.call_effect is not None: c.call_effect(s,env,st1,cs)       # object-valued heap effects implied by the postcondition
      res=None
      rt=cs.returns if cs.returns is not None else c.returns
      if ctor is not None: res=selfv; rt='self'
      elif rt=='self': res=env['self']
      elif rt is not None:
        res=mk_value(rt,'ret_'+name.split('.')[-1],st1,fresh=True)
      env2=dict(env)
      if ctor is not None: env2['self']=selfv
      # postcondition conjuncts that *define* the result (result == E, result.f == E, self.f == E for a havoced field) are applied
      # by substitution instead of through a fresh symbol plus an equation: same meaning, fewer symbols, syntactic matching survives
      if cs.ensures:
        for cl in cs.clauses():
          if not (isinstance(cl,ast.Compare) and len(cl.ops)==1 and isinstance(cl.ops[0],ast.Eq)): continue
          L,R=cl.left,cl.comparators[0]
          if any(isinstance(x,ast.Name) and x.id=='result' for x in ast.walk(R)): continue
          try:
            if isinstance(L,ast.Name) and L.id=='result' and isinstance(rt,(IntT,BoolT)):
              v=sub.spec_val(R,env2,st1,st1.heap,pre_heap)
              if is_intlike(v): res=I(as_int(v)) if isinstance(rt,IntT) else (v if isinstance(v,B) else res)
            elif isinstance(L,ast.Attribute) and isinstance(L.value,ast.Name) and L.value.id=='result' and isinstance(res,Ref):
              v=sub.spec_val(R,env2,st1,st1.heap,pre_heap)
              if is_intlike(v) and (res.id,L.attr) in st1.heap: st1.heap[(res.id,L.attr)]=I(as_int(v))
            elif isinstance(L,ast.Attribute) and isinstance(L.value,ast.Name) and L.value.id in env2 and isinstance(env2[L.value.id],Ref) \
                 and f"{L.value.id}.{L.attr}" in (cs.modifies if cs.modifies is not None else c.modifies):
              # a havoced field defined by the postcondition; E must not read that field in the post-state
              if any(isinstance(x,ast.Attribute) and x.attr==L.attr and not _inside_old(R,x) for x in ast.walk(R)): continue
              v=sub.spec_val(R,env2,st1,st1.heap,pre_heap)
              if is_intlike(v): st1.heap[(env2[L.value.id].id,L.attr)]=I(as_int(v))
          except ToolError: pass
      if res is not None: env2['result']=res
      if cs.ensures:
        post=sub.spec_bool(cs.ensures,env2,st1,st1.heap,pre_heap)
        st1.pc.append(post)
      if ctor is not None: yield st1,selfv
      elif rt is None: yield st1,NONE
      else: yield st1,res

  def spec_val(s,tree,env,st,heap,old_heap,old_env=None):
    st2=st.fork(); st2.heap=heap; st2.env=dict(env)
    st2.entry_heap=old_heap if old_heap is not None else heap
    st2.entry_env=old_env if old_env is not None else env
    old=s.spec; s.spec=True
    try: rs=list(s.ev(tree,st2))
    finally: s.spec=old
    if len(rs)!=1 or isinstance(rs[0][1],Exc): raise ToolError("contract expression is not a value")
    return rs[0][1]

  def spec_bool(s,src,env,st,heap,old_heap,old_env=None):
    """evaluate a contract expression (string) to a z3 Bool in the given heap."""
    tree=src if isinstance(src,ast.AST) else parse_spec(src)
    st2=st.fork(); st2.heap=heap; st2.env=dict(env)
    st2.entry_heap=old_heap if old_heap is not None else heap
    st2.entry_env=old_env if old_env is not None else env
    old=s.spec; s.spec=True
    try:
      rs=list(s.ev(tree,st2))
    finally: s.spec=old
    if len(rs)!=1: raise ToolError(f"contract expression is not path-free: {ast.unparse(tree)}")
    v=rs[0][1]
    if isinstance(v,Exc): raise ToolError(f"contract expression raised {v}: {ast.unparse(tree)}")
    t=list(s.truth(v,st2))[0][1]
    return t

  # ---------------------------------------------------------------------------------------------- statements
  # outcome: (st, ctl) with ctl None | ('return',v) | ('raise',Exc) | ('break',) | ('continue',)
  def block(s,stmts,st):
    if not stmts: yield st,None; return
    s.cur_line=getattr(stmts[0],'lineno',0)
    hooks=getattr(getattr(s,'contract',None),'ghost_hooks',None)
    hook=hooks.get(' '.join(ast.unparse(stmts[0]).split())) if hooks and not isinstance(stmts[0],(ast.For,ast.While,ast.If,ast.Try)) else None
    for st1,ctl in s.stmt(stmts[0],st):
      if ctl is not None: yield st1,ctl
      else:
        if hook is not None:
          st1=st1.fork(); hook(s,st1)          # ghost update attached to this statement by the sidecar
        yield from s.block(stmts[1:],st1)

  def stmt(s,n,st):
    s.npaths+=1
    if s.npaths>200000: raise Unsupported("path explosion")
    m=getattr(s,'st_'+type(n).__name__,None)
    if m is None: raise Unsupported(f"statement {type(n).__name__} at line {n.lineno}")
    yield from m(n,st)

  def st_Pass(s,n,st): yield st,None
  def st_Import(s,n,st):
    from .symcoll import Mod
    st=st.fork()
    for a in n.names: st.env[(a.asname or a.name).split('.')[0]]=Mod(a.name)
    yield st,None
  def st_ImportFrom(s,n,st): yield st,None
  def st_Global(s,n,st): yield st,None
  def st_Nonlocal(s,n,st): yield st,None      # closure variables are inputs of the contract view
  def st_Break(s,n,st): yield st,('break',)
  def st_Continue(s,n,st): yield st,('continue',)

  def st_Expr(s,n,st):
    if isinstance(n.value,ast.Constant): yield st,None; return     # docstring
    if isinstance(n.value,ast.Call) and isinstance(n.value.func,ast.Name) and n.value.func.id=='print':
      yield st,None; return                                         # dropped (DESIGN 3.1)
    for st1,v in s.ev(n.value,st):
      yield (st1,('raise',v)) if isinstance(v,Exc) else (st1,None)

  def st_Return(s,n,st):
    if n.value is None: yield st,('return',NONE); return
    for st1,v in s.ev(n.value,st):
      yield (st1,('raise',v)) if isinstance(v,Exc) else (st1,('return',v))

  def st_Raise(s,n,st):
    if n.exc is None: raise Unsupported("bare raise")
    e=n.exc
    if isinstance(e,ast.Call):
      # evaluate constructor arguments for typing only (DESIGN 3.1), keep the class
      for st1,f in s.ev(e.func,st):
        if isinstance(f,Exc): yield st1,('raise',f); continue
        if not isinstance(f,Cls): raise Unsupported("raise of non-class")
        try:
          outs=list(s.evs(list(e.args),st1))
        except Unsupported:
          # the message is built with constructs outside the subset (string joins over collections ...): the exception class is what
          # the contracts speak about; that building the message itself does not fail is an assumption of every such contract
          outs=[(st1,[])]
        for st2,vals in outs:
          if isinstance(vals,Exc): yield st2,('raise',vals); continue
          yield st2,('raise',Exc(f.name,f"line {n.lineno}"))
      return
    for st1,f in s.ev(e,st):
      if isinstance(f,Exc): yield st1,('raise',f)
      elif isinstance(f,Cls): yield st1,('raise',Exc(f.name,f"line {n.lineno}"))
      else: raise Unsupported("raise of value")

  def st_Assert(s,n,st):
    for st1,c in s.ev(n.test,st):
      if isinstance(c,Exc): yield st1,('raise',c); continue
      for st2,t in s.truth(c,st1):
        if isinstance(t,Exc): yield st2,('raise',t); continue
        for st3,side in s.branch(st2,t):
          if side: yield st3,None
          else: yield st3,('raise',Exc('AssertionError',f"line {n.lineno}"))

  def st_If(s,n,st):
    for st1,c in s.ev(n.test,st):
      if isinstance(c,Exc): yield st1,('raise',c); continue
      for st2,t in s.truth(c,st1):
        if isinstance(t,Exc): yield st2,('raise',t); continue
        for st3,side in s.branch(st2,t):
          yield from s.block(n.body if side else n.orelse, st3)

  def st_Assign(s,n,st):
    for st1,v in s.ev(n.value,st):
      if isinstance(v,Exc): yield st1,('raise',v); continue
      al=getattr(getattr(s,'contract',None),'abstract_lists',())
      if al and isinstance(v,Ref) and v.cls=='list' and (v.id,'items') in st1.heap and any(isinstance(t,ast.Name) and t.id in al for t in n.targets):
        from . import symcoll
        kind=[al[t.id] for t in n.targets if isinstance(t,ast.Name) and t.id in al][0] if isinstance(al,dict) else 'set'
        if kind.startswith('keyed:'):
          # a list of sets, represented as the set-valued dict {key: set} with the key expression evaluated at every append
          if st1.heap[(v.id,'items')]: raise Unsupported("non-empty literal for a keyed list of sets")
          r=st1.alloc('dict'); st1.heap[(r.id,'dom')]=symcoll.EMPTY; st1.heap[(r.id,'val')]=z3.K(symcoll.Obj,symcoll.EMPTY)
          st1.heap[(r.id,'key')]=symcoll.ObjK(); st1.heap[(r.id,'vt')]=symcoll.SetOf(symcoll.ObjK()); st1.heap[(r.id,'default')]=None
          st1.heap[(r.id,'keyexpr')]=kind[6:]; v=r
        else:
          arr=symcoll.EMPTY
          for x in st1.heap[(v.id,'items')]: arr=z3.Store(arr,symcoll.to_obj(x,st1),True)
          nm=[t.id for t in n.targets if isinstance(t,ast.Name) and t.id in al][0]
          v=symcoll.new_setlist(st1,arr,(getattr(s.contract,'list_elems',None) or {}).get(nm))
          if kind=='bag': st1.heap[(v.id,'bag')]=True
      def go(ts,st):
        if not ts: yield st,None; return
        for st2,ctl in s.assign(ts[0],v,st):
          if ctl is not None: yield st2,ctl
          else: yield from go(ts[1:],st2)
      yield from go(n.targets,st1)

  def st_AnnAssign(s,n,st):
    if n.value is None: yield st,None; return
    for st1,v in s.ev(n.value,st):
      if isinstance(v,Exc): yield st1,('raise',v)
      else: yield from s.assign(n.target,v,st1)

  def assign(s,t,v,st):
    if isinstance(t,ast.Name):
      st=st.fork()
      al=getattr(getattr(s,'contract',None),'abstract_lists',())
      if al and t.id in al and isinstance(v,Ref) and v.cls=='list' and st.heap.get((v.id,'items'))==():
        # an empty list literal bound to a name the contract abstracts (tuple targets, re-binding inside loops)
        from . import symcoll
        kind=al[t.id] if isinstance(al,dict) else 'set'
        if not str(kind).startswith('keyed:'):
          v=symcoll.new_setlist(st,None,(getattr(s.contract,'list_elems',None) or {}).get(t.id))
          if kind=='bag': st.heap[(v.id,'bag')]=True
      st.env[t.id]=v; yield st,None
    elif isinstance(t,(ast.Tuple,ast.List)):
      if isinstance(v,Tup): items=v.items
      elif isinstance(v,Ref) and (v.id,'items') in st.heap: items=st.heap[(v.id,'items')]
      elif isinstance(v,Opq) and len(t.elts)==2 and z3.is_expr(v.t) and str(v.t.sort())=='Obj':
        # element of a collection of pairs whose element type is not declared (a set filled with `add((a, b))`): that the element is a
        # pair is the type invariant of the collection (assumed, like the declared element types of the contract views)
        from . import symcoll
        st=st.fork(symcoll.Obj.is_pair(v.t)); items=[Opq(symcoll.Obj.fst(v.t),'obj'),Opq(symcoll.Obj.snd(v.t),'obj')]
      else: raise Unsupported("unpacking of non-tuple")
      if len(items)!=len(t.elts): yield st,('raise',Exc('ValueError','unpack')); return
      def go(i,st):
        if i==len(items): yield st,None; return
        for st2,ctl in s.assign(t.elts[i],items[i],st):
          if ctl is not None: yield st2,ctl
          else: yield from go(i+1,st2)
      yield from go(0,st)
    elif isinstance(t,ast.Attribute):
      for st1,o in s.ev(t.value,st):
        if isinstance(o,Exc): yield st1,('raise',o); continue
        if not isinstance(o,Ref): raise Unsupported(f"attribute store on {o!r}")
        if not s.reg.may_set(o.cls,t.attr):
          yield st1,('raise',Exc('AttributeError',f"{o.cls} has no slot {t.attr}")); continue
        st2=st1.fork(); st2.heap[(o.id,t.attr)]=v; yield st2,None
    elif isinstance(t,ast.Subscript):
      for st1,vals in s.evs([t.value,t.slice],st):
        if isinstance(vals,Exc): yield st1,('raise',vals); continue
        yield from s.setitem(vals[0],vals[1],v,st1)
    else: raise Unsupported(f"assignment target {type(t).__name__}")

  def setitem(s,o,idx,v,st):
    if isinstance(o,Ref) and (o.id,'items') in st.heap:
      items=list(st.heap[(o.id,'items')])
      c=const_int(as_int(idx)) if is_intlike(idx) else None
      if c is None: raise Unsupported("list store with symbolic index")
      if not -len(items)<=c<len(items): yield st,('raise',Exc('IndexError')); return
      items[c]=v; st2=st.fork(); st2.heap[(o.id,'items')]=tuple(items); yield st2,None; return
    if isinstance(o,Ref):
      h=s.reg.coll_handler(o,st)
      if h is not None:
        yield from h.setitem(s,o,idx,v,st); return
      if s.reg.find_method(o.cls,'__setitem__') is not None:
        for st1,r in s.call_method(o,'__setitem__',[idx,v],st):
          yield (st1,('raise',r)) if isinstance(r,Exc) else (st1,None)
        return
    raise Unsupported(f"item store on {o!r}")

  INPLACE={ast.LShift:'__ilshift__',ast.MatMult:'__imatmul__',ast.Add:'__iadd__',ast.Sub:'__isub__',ast.BitOr:'__ior__',ast.BitAnd:'__iand__'}
  def st_AugAssign(s,n,st):
    # target op= value : evaluate target (load), value, apply (in-place method if the class has one)
    load=ast.copy_location(_as_load(n.target),n.target)
    for st1,vals in s.evs([load,n.value],st):
      if isinstance(vals,Exc): yield st1,('raise',vals); continue
      a,b=vals
      im=s.INPLACE.get(type(n.op))
      if type(a).__name__=='DictSlot' and im:
        from .symcoll import SlotOps
        st2,r=SlotOps.apply(s,a,im,[b],st1)
        yield from s.assign(n.target,r,st2); continue
      if isinstance(a,Ref):
        h=s.reg.coll_handler(a,st1)
        if h is not None and im and h.has_method(im):
          for st2,r in h.call(s,a,im,[b],{},st1):
            if isinstance(r,Exc): yield st2,('raise',r)
            else: yield from s.assign(n.target,r,st2)
          continue
      if isinstance(a,Ref) and im and s.reg.find_method(a.cls,im) is not None:
        for st2,r in s.call_method(a,im,[b],st1):
          if isinstance(r,Exc): yield st2,('raise',r)
          else: yield from s.assign(n.target,r,st2)
        continue
      for st2,r in s.binop(type(n.op),a,b,st1):
        if isinstance(r,Exc): yield st2,('raise',r)
        else: yield from s.assign(n.target,r,st2)

  def st_Try(s,n,st):
    if n.finalbody: raise Unsupported("try/finally")
    for st1,ctl in s.block(n.body,st):
      if ctl is None:
        if n.orelse: yield from s.block(n.orelse,st1)
        else: yield st1,None
        continue
      if ctl[0]!='raise': yield st1,ctl; continue
      exc=ctl[1]
      yield from s.handle(n.handlers,exc,st1)

  def handle(s,handlers,exc,st):
    for i,h in enumerate(handlers):
      if h.type is None: names=['BaseException']
      elif isinstance(h.type,ast.Tuple): names=[x.id for x in h.type.elts]
      elif isinstance(h.type,ast.Name): names=[h.type.id]
      else: raise Unsupported("except clause")
      if any(s.exc_sub(exc.cls,nm) for nm in names):
        st2=st.fork()
        if h.name: st2.env[h.name]=Opq(z3.IntVal(0),'excobj')
        yield from s.block(h.body,st2); return
      if any(s.exc_sub(nm,exc.cls) for nm in names):
        # the contract only promises a superclass: the handler may or may not match
        st2=st.fork()
        if h.name: st2.env[h.name]=Opq(z3.IntVal(0),'excobj')
        yield from s.block(h.body,st2)
        yield from s.handle(handlers[i+1:],exc,st); return
    yield st,('raise',exc)

  def exc_sub(s,c,parent):
    if parent in('BaseException',): return True
    return exc_subclass(c,parent) or s.reg.exc_subclass(c,parent)

  def st_For(s,n,st):
    # complete unrolling when the iteration space is concrete; otherwise a sidecar invariant is required
    for st1,it in s.ev(n.iter,st):
      if isinstance(it,Exc): yield st1,('raise',it); continue
      items=s.concrete_items(it,st1)
      if items is None:
        h=s.reg.loop_handler(s,n,it,st1)
        if h is None: raise Unsupported(f"loop at line {n.lineno} over a symbolic collection has no invariant")
        yield from h; continue
      def go(i,st):
        if i==len(items):
          if n.orelse: yield from s.block(n.orelse,st)
          else: yield st,None
          return
        for st2,ctl in s.assign(n.target,items[i],st):
          if ctl is not None: yield st2,ctl; continue
          for st3,c in s.block(n.body,st2):
            if c is None or c[0]=='continue': yield from go(i+1,st3)
            elif c[0]=='break': yield st3,None
            else: yield st3,c
      yield from go(0,st1)

  def concrete_items(s,it,st):
    if isinstance(it,Tup): return list(it.items)
    if isinstance(it,Ref) and (it.id,'items') in st.heap: return list(st.heap[(it.id,'items')])
    if isinstance(it,Ref) and it.cls=='range':
      a,b,c=[const_int(as_int(st.heap[(it.id,k)])) for k in('start','stop','step')]
      if None in (a,b,c): return None
      return [I(i) for i in range(a,b,c)]
    return None

  def st_While(s,n,st):
    spec=s.loop_spec(n)
    if spec is not None:
      yield from s.while_inv(n,spec,st); return
    h=s.reg.while_handler(s,n,st)
    if h is not None: yield from h; return
    # no invariant: bounded concrete unrolling is only acceptable if the condition becomes concretely false
    def go(st,k):
      if k>5000: raise Unsupported(f"while loop at line {n.lineno} needs an invariant")
      for st1,c in s.ev(n.test,st):
        if isinstance(c,Exc): yield st1,('raise',c); continue
        for st2,t in s.truth(c,st1):
          if isinstance(t,Exc): yield st2,('raise',t); continue
          t=z3.simplify(t)
          if not (z3.is_true(t) or z3.is_false(t)): raise Unsupported(f"while loop at line {n.lineno} needs an invariant")
          if z3.is_false(t):
            if n.orelse: yield from s.block(n.orelse,st2)
            else: yield st2,None
            continue
          for st3,ctl in s.block(n.body,st2):
            if ctl is None or ctl[0]=='continue': yield from go(st3,k+1)
            elif ctl[0]=='break': yield st3,None
            else: yield st3,ctl
    yield from go(st,0)

  # ---- loops under contract -----------------------------------------------------------------------
  def loop_spec(s,n):
    """sidecar loop contract of the loop statement n of the function being verified (keyed by ordinal)."""
    c=getattr(s,'contract',None)
    if c is None or not c.loops: return None
    fn=c.fn_ast(s.reg)
    # string keys name a loop by its header: 'for <target> in <iter>' / 'while <test>' must contain the key (robust against
    # reordering independent loops); integer keys are ordinals in source order
    def header(x):
      if isinstance(x,ast.While): return f"while {ast.unparse(x.test)}"
      t=ast.unparse(x.target)
      if isinstance(x.target,ast.Tuple) and t.startswith('(') and t.endswith(')'): t=t[1:-1]       # `for a, b in ...` as written
      return f"for {t} in {ast.unparse(x.iter)}"
    hdr=header(n)
    hits=[k for k in c.loops if isinstance(k,str) and '#' not in k and k in hdr]
    if hits: return c.loops[max(hits,key=len)]
    # 'header text#n': the n-th loop (source order) whose header contains the text - for functions that repeat a loop header
    for k in c.loops:
      if isinstance(k,str) and '#' in k:
        txt,num=k.rsplit('#',1)
        if txt not in hdr: continue
        same=[x for x in ast.walk(fn) if isinstance(x,(ast.For,ast.While)) and txt in header(x)]
        same.sort(key=lambda x:(x.lineno,x.col_offset))
        if int(num)<=len(same) and same[int(num)-1].lineno==n.lineno and same[int(num)-1].col_offset==n.col_offset: return c.loops[k]
    loops=[x for x in ast.walk(fn) if isinstance(x,(ast.For,ast.While))]
    loops.sort(key=lambda x:(x.lineno,x.col_offset))
    for i,x in enumerate(loops):
      if x is n or (x.lineno==n.lineno and x.col_offset==n.col_offset and type(x)==type(n)):
        return c.loops.get(i+1)
    return None

  def assigned_names(s,body):
    out=set()
    for b in body:
      for x in ast.walk(b):
        if isinstance(x,ast.Name) and isinstance(x.ctx,ast.Store): out.add(x.id)
    return out

  def havoc_locals(s,st,names):
    for nm in sorted(names):
      v=st.env.get(nm)
      if v is None: continue
      if isinstance(v,B): st.env[nm]=B(st.fresh_bool(nm))
      elif isinstance(v,I): st.env[nm]=I(st.fresh_int(nm))
      elif isinstance(v,NoneV):                        # `x = None` before the loop, an object (or None) after some iterations
        from . import symcoll
        st.env[nm]=Opq(z3.Const(f"{nm}@loop!{st.nextid[0]}",symcoll.Obj),'obj'); st.nextid[0]+=1
      elif isinstance(v,Opq) and z3.is_expr(v.t):      # an opaque object reference: any object of that kind
        st.env[nm]=Opq(z3.Const(f"{nm}@loop!{st.nextid[0]}",v.t.sort()),v.kind); st.nextid[0]+=1
      elif isinstance(v,Ref) and v.cls=='dict' and (v.id,'dom') in st.heap:
        from . import symcoll
        r=st.alloc('dict')
        for k_ in ('key','vt','default'): st.heap[(r.id,k_)]=st.heap.get((v.id,k_))
        st.heap[(r.id,'dom')]=z3.Const(f"{nm}.dom@loop!{st.nextid[0]}",symcoll.SetSort)
        st.heap[(r.id,'val')]=z3.Const(f"{nm}.val@loop!{st.nextid[0]}",st.heap[(v.id,'val')].sort()); st.nextid[0]+=1
        st.env[nm]=r
      elif isinstance(v,Ref) and v.cls in('setlist',) and (v.id,'arr') in st.heap:
        # a local re-bound to a fresh abstracted list in the body: any such list
        from . import symcoll
        st.env[nm]=symcoll.new_setlist(st,z3.Const(f"{nm}@loop!{st.nextid[0]}",symcoll.SetSort),st.heap.get((v.id,'elem'))); st.nextid[0]+=1
      else: raise Unsupported(f"loop modifies local {nm} of non-scalar type {v!r}")

  def loop_frame_vc(s,n,head_heap,st):
    """soundness of the loop rule: a heap cell that existed at the loop head and is not havoced there (not in the loop's `modifies`) must
    be unchanged at the end of the body; otherwise the invariant was assumed for a state the loop never re-establishes."""
    diffs=[]
    for k,v0 in head_heap.items():
      v1=st.heap.get(k,v0)
      if v1 is v0: continue
      a=v0.t if isinstance(v0,(I,B)) else v0; b=v1.t if isinstance(v1,(I,B)) else v1
      if isinstance(a,z3.ExprRef) and isinstance(b,z3.ExprRef):
        if a.eq(b): continue
        if a.sort()==b.sort(): diffs.append(a==b); continue
      if isinstance(v0,Ref) and isinstance(v1,Ref) and v0.id==v1.id: continue
      if not isinstance(v0,Val) and not isinstance(v0,z3.ExprRef) and v0==v1: continue
      diffs.append(z3.BoolVal(False))
    if diffs: st.vcs.append(('loop-frame',f"loop@{n.lineno}",list(st.pc),z3.And(*diffs),st))

  def inv_vc(s,kind,n,spec,st,entry):
    st=st.fork()
    for cl in spec.lemmas:      # definitional unfoldings of spec functions, instantiated on the current state
      st.pc.append(s.spec_bool(cl,st.env,st,st.heap,st.entry_heap,st.entry_env))
    for k,cl in enumerate(spec.invariant):
      g=s.spec_bool(cl,st.env,st,st.heap,st.entry_heap,st.entry_env)
      st.vcs.append((kind,f"loop@{n.lineno}::{k}",list(st.pc),g,st))

  def while_inv(s,n,spec,st):
    prev_pre=st.ghost.get('__pre__')
    st=st.fork(); st.ghost['__pre__']=dict(st.heap)
    def leave(x):
      x=x.fork()
      if prev_pre is None: x.ghost.pop('__pre__',None)
      else: x.ghost['__pre__']=prev_pre
      return x
    s.inv_vc('inv-init',n,spec,st,None)
    st1=st.fork()
    s.havoc_locals(st1,s.assigned_names(n.body))
    from .symcoll import havoc_loc, havoc_ghost
    for loc in spec.modifies: havoc_loc(s,loc,st1)
    havoc_ghost(spec,st1)
    for cl in spec.invariant:
      st1.pc.append(s.spec_bool(cl,st1.env,st1,st1.heap,st1.entry_heap,st1.entry_env))
    for cl in spec.lemmas:
      st1.pc.append(s.spec_bool(cl,st1.env,st1,st1.heap,st1.entry_heap,st1.entry_env))
    head_heap={k:v for k,v in st1.heap.items() if st.heap.get(k) is v or (isinstance(v,z3.ExprRef) and isinstance(st.heap.get(k),z3.ExprRef) and st.heap[k].eq(v))}
    m0=None
    if spec.decreases is not None:
      m0=s.spec_int(spec.decreases,st1)
    for st2,c in s.ev(n.test,st1):
      if isinstance(c,Exc): yield st2,('raise',c); continue
      for st3,t in s.truth(c,st2):
        if isinstance(t,Exc): yield st3,('raise',t); continue
        for st4,side in s.branch(st3,t):
          if not side:
            for cl in spec.lemmas: st4.pc.append(s.spec_bool(cl,st4.env,st4,st4.heap,st4.entry_heap,st4.entry_env))
            st4=leave(st4)
            if n.orelse: yield from s.block(n.orelse,st4)
            else: yield st4,None
            continue
          for st5,ctl in s.block(n.body,st4):
            if ctl is None or ctl[0]=='continue':
              s.loop_frame_vc(n,head_heap,st5)
              s.inv_vc('inv-step',n,spec,st5,None)
              if m0 is not None:
                m1=s.spec_int(spec.decreases,st5)
                st5.vcs.append(('decreases',f"loop@{n.lineno}",list(st5.pc),z3.And(m0>=0,m1<m0),st5))
            elif ctl[0]=='break': yield leave(st5),None
            else: yield st5,ctl

  def spec_int(s,src,st):
    tree=parse_spec(src) if isinstance(src,str) else src
    st2=st.fork(); old=s.spec; s.spec=True
    try: rs=list(s.ev(tree,st2))
    finally: s.spec=old
    return as_int(rs[0][1])

  def st_Delete(s,n,st):
    def go(ts,st):
      if not ts: yield st,None; return
      t=ts[0]
      if isinstance(t,ast.Name):
        st2=st.fork(); st2.env.pop(t.id,None); yield from go(ts[1:],st2); return
      if not isinstance(t,ast.Subscript): raise Unsupported("del of attribute")
      for st1,vals in s.evs([t.value,t.slice],st):
        if isinstance(vals,Exc): yield st1,('raise',vals); continue
        h=s.reg.coll_handler(vals[0],st1) if isinstance(vals[0],Ref) else None
        if h is None or not hasattr(h,'delitem'): raise Unsupported(f"del on {vals[0]!r}")
        for st2,ctl in h.delitem(s,vals[0],vals[1],st1):
          if ctl is not None: yield st2,ctl
          else: yield from go(ts[1:],st2)
    yield from go(n.targets,st)

  def st_FunctionDef(s,n,st):
    st=st.fork(); st.env[n.name]=Fn('local:'+n.name); yield st,None
  def st_ClassDef(s,n,st):
    yield st,None

def _inside_old(root,node):
  for n in ast.walk(root):
    if isinstance(n,ast.Call) and isinstance(n.func,ast.Name) and n.func.id=='old':
      if any(x is node for x in ast.walk(n)): return True
  return False

def resolve_locs(loc,env,heap):
  """heap keys named by a frame location: 'self._uint' ; 's._dsl.all_upblks' (a whole set / dict object)."""
  import re
  def step(cur,p):
    m=re.match(r'^(\w+)((?:\[\d+\])*)$',p); cur=heap[(cur.id,m.group(1))]
    for i in re.findall(r'\[(\d+)\]',m.group(2)): cur=heap[(cur.id,'items')][int(i)]
    return cur
  parts=loc.split('.'); cur=env[parts[0]]
  if len(parts)==1:      # a parameter that is itself a collection
    if isinstance(cur,Ref) and cur.cls in('set','setlist') and (cur.id,'arr') in heap: return {(cur.id,'arr')}
    if isinstance(cur,Ref) and cur.cls=='dict' and (cur.id,'dom') in heap: return {(cur.id,'dom'),(cur.id,'val')}
    return set()
  for p in parts[1:-1]: cur=step(cur,p)
  last=parts[-1]
  tgt=heap.get((cur.id,last))
  # a named collection field may be mutated in place or re-bound to a new collection
  if isinstance(tgt,Ref) and tgt.cls=='set' and (tgt.id,'arr') in heap: return {(tgt.id,'arr'),(cur.id,last)}
  if isinstance(tgt,Ref) and tgt.cls=='dict' and (tgt.id,'dom') in heap: return {(tgt.id,'dom'),(tgt.id,'val'),(cur.id,last)}
  return {(cur.id,last)}

def havoc_keys(keys,st,tag):
  for (oid,f) in keys:
    old=st.heap.get((oid,f))
    if isinstance(old,Ref): continue          # a field holding a collection: its contents are havoced through the collection's own cells
    if isinstance(old,z3.ExprRef): st.heap[(oid,f)]=z3.Const(f"{tag}.{f}!{st.nextid[0]}",old.sort()); st.nextid[0]+=1
    else: st.heap[(oid,f)]=I(st.fresh_int(f"{tag}.{f}'"))

def _setlike(v,st):
  n=type(v).__name__
  if n in('SetV','DictSlot'): return True
  return isinstance(v,Ref) and v.cls=='set' and (v.id,'arr') in st.heap

def _as_load(t):
  t2=ast.parse(ast.unparse(t),mode='eval').body
  return t2

# ------------------------------------------------------------------------------------------------ spec types
class SpecType:
  fields=()
class IntT(SpecType):
  tag='int'
class BoolT(SpecType):
  tag='bool'
class NoneT(SpecType):
  tag='none'
class StrT(SpecType):
  tag='str'
class OtherT(SpecType):
  tag='other'
class ObjT(SpecType):
  def __init__(s,cls,fields,unset=()): s.cls=cls; s.fields=tuple(fields); s.tag=cls
class SliceT(SpecType):
  tag='slice'
  def __init__(s,a,b,c): s.parts=(a,b,c)
class OneOf(SpecType):
  def __init__(s,*alts): s.alts=alts
class TupleT(SpecType):
  tag='tuple'
  def __init__(s,*parts): s.parts=parts

def expand(t):
  """list of alternative-free instantiations of a spec type."""
  if isinstance(t,OneOf):
    out=[]
    for a in t.alts: out+=expand(a)
    return out
  if isinstance(t,SliceT):
    return [SliceT(*c) for c in itertools.product(*[expand(p) for p in t.parts])]
  if isinstance(t,TupleT):
    return [TupleT(*c) for c in itertools.product(*[expand(p) for p in t.parts])]
  return [t]

def type_label(t):
  if isinstance(t,SliceT): return 'slice('+','.join(type_label(p) for p in t.parts)+')'
  if isinstance(t,TupleT): return 'tuple('+','.join(type_label(p) for p in t.parts)+')'
  return t.tag

def mk_value(t,name,st,fresh=False):
  """symbolic value of spec type t; registers its leaf symbols in st.syms for model extraction."""
  if isinstance(t,IntT):
    pins=st.ghost.get('__pins__') or {}
    if not fresh and name in pins:
      c=z3.IntVal(pins[name]); st.syms.append((name,c)); return I(c)
    c=st.fresh_int(name) if fresh else z3.Int(name)
    if not fresh: st.syms.append((name,c))
    return I(c)
  if isinstance(t,BoolT):
    c=st.fresh_bool(name) if fresh else z3.Bool(name)
    if not fresh: st.syms.append((name,c))
    return B(c)
  if isinstance(t,NoneT): return NONE
  if isinstance(t,StrT): return S()
  if isinstance(t,OtherT): return OTHER
  if isinstance(t,ObjT):
    r=st.alloc(t.cls)
    for f in t.fields:
      st.heap[(r.id,f)]=mk_value(IntT(),f"{name}.{f}",st,fresh)
    return r
  if isinstance(t,SliceT):
    return SliceV(*[mk_value(p,f"{name}.{k}",st,fresh) for p,k in zip(t.parts,('start','stop','step'))])
  if isinstance(t,TupleT):
    return Tup([mk_value(p,f"{name}.{i}",st,fresh) for i,p in enumerate(t.parts)])
  if hasattr(t,'make'): return t.make(name,st,fresh)
  raise ToolError(f"cannot make value of {t}")

def _pow2_arg(t):
  """k if the term is the uninterpreted pow2(k) (a power of two with symbolic exponent, from 2**k or 1 << k with k >= 0), else None."""
  try:
    t=z3.simplify(t) if isinstance(t,z3.ExprRef) else None
    if t is not None and z3.is_app(t) and t.num_args()==1 and t.decl().name()=='pow2': return t.arg(0)
  except Exception: pass
  return None

def type_tag(v,st=None):
  if isinstance(v,I): return 'int'
  if isinstance(v,B): return 'int'
  if isinstance(v,NoneV): return 'none'
  if isinstance(v,S): return 'str'
  if isinstance(v,Other): return 'other'
  if isinstance(v,Ref): return v.cls
  if isinstance(v,SliceV): return 'slice'
  if isinstance(v,Tup): return 'tuple'
  if isinstance(v,ClsN): return 'bitscls'
  if isinstance(v,Cls): return 'class:'+v.name
  if isinstance(v,Opq): return v.kind
  return type(v).__name__

def parse_spec(src):
  return ast.parse(src.strip(),mode='eval').body

# ------------------------------------------------------------------------------------------------ builtins
def _bi_int(s,f,args,kw,st):
  if len(args)!=1: raise Unsupported("int() with base")
  v=args[0]
  if is_intlike(v): yield st,I(as_int(v))
  elif isinstance(v,Ref):
    if s.reg.find_method(v.cls,'__int__') is not None: yield from s.call_method(v,'__int__',[],st)
    elif s.reg.find_method(v.cls,'__index__') is not None: yield from s.call_method(v,'__index__',[],st)
    else: yield st,Exc('TypeError','int() argument')
  elif isinstance(v,(NoneV,Other,Tup,SliceV,Cls)): yield st,Exc('TypeError','int() argument')
  elif isinstance(v,S):
    if v.py is not None:
      try: yield st,I(int(v.py))
      except ValueError: yield st,Exc('ValueError','int(str)')
    else: raise Unsupported("int(opaque str)")
  else: raise Unsupported(f"int({v!r})")

def _bi_isinstance(s,f,args,kw,st):
  v,c=args
  names=[x.name for x in c.items] if isinstance(c,Tup) else [c.name]
  cp=getattr(getattr(s,'contract',None),'class_predicates',None)
  if cp and isinstance(v,Opq) and all(nm in cp for nm in names):
    # class membership of an opaque framework object: the pure predicate the contract names for that class (assumption: classes of objects do not change)
    ts=[]
    for nm in names:
      r=SPEC_FUNS[cp[nm]](s,[v],st); ts.append(r.t)
    yield st,B(z3.Or(*ts) if len(ts)>1 else ts[0]); return
  tag=type_tag(v,st)
  res=False
  for nm in names:
    if nm==tag: res=True
    elif nm=='int' and isinstance(v,(I,B)): res=True
    elif nm=='bool' and isinstance(v,B): res=True
    elif nm=='slice' and isinstance(v,SliceV): res=True
    elif nm=='str' and isinstance(v,S): res=True
    elif nm=='tuple' and isinstance(v,Tup): res=True
    elif nm=='list' and isinstance(v,Ref) and v.cls=='list': res=True
    elif isinstance(v,Ref) and s.reg.is_subclass(v.cls,nm): res=True
  yield st,B(res)

def _bi_abs(s,f,args,kw,st):
  v=args[0]
  if is_intlike(v):
    x=as_int(v); yield st,I(z3.If(x>=0,x,-x))
  else: yield st,Exc('TypeError','abs')

def _bi_hex(s,f,args,kw,st):
  v=args[0]
  if is_intlike(v): yield st,S()
  elif isinstance(v,Ref) and s.reg.find_method(v.cls,'__index__') is not None:
    for st1,r in s.call_method(v,'__index__',[],st): yield (st1,r) if isinstance(r,Exc) else (st1,S())
  else: yield st,Exc('TypeError','hex()')

def _bi_str(s,f,args,kw,st): yield st,S()
def _bi_repr(s,f,args,kw,st):
  v=args[0]
  if isinstance(v,Opq) and z3.is_expr(v.t) and str(v.t.sort())=='Obj' and getattr(getattr(s,'contract',None),'opaque_attrs',False):
    from . import symcoll
    yield st,Opq(z3.Function('pm_repr_of',symcoll.Obj,symcoll.Obj)(v.t),'obj'); return       # the name of the object, as an object
  yield st,S()
def _bi_eval(s,f,args,kw,st):
  v=args[0]
  if isinstance(v,Opq) and z3.is_expr(v.t) and str(v.t.sort())=='Obj' and getattr(getattr(s,'contract',None),'opaque_attrs',False):
    from . import symcoll
    yield st,Opq(z3.Function('pm_eval_of',symcoll.Obj,symcoll.Obj)(v.t),'obj'); return       # what the name denotes in the current (unchanging) state
  raise Unsupported("eval()")

def _bi_len(s,f,args,kw,st):
  v=args[0]
  if isinstance(v,Tup): yield st,I(len(v.items)); return
  if isinstance(v,Ref) and (v.id,'items') in st.heap: yield st,I(len(st.heap[(v.id,'items')])); return
  if isinstance(v,Ref):
    h=s.reg.coll_handler(v,st)
    if h is not None: yield from h.call(s,v,'__len__',[],{},st); return
  if isinstance(v,S) and v.py is not None: yield st,I(len(v.py)); return
  if type(v).__name__=='DictSlot':
    from . import symcoll
    arr=symcoll.slot_arr(v,st); st2=st.fork()
    for f_ in symcoll.card_facts(arr): st2.pc.append(f_)
    yield st2,I(symcoll.CARD(arr)); return
  raise Unsupported(f"len({v!r})")

def _bi_range(s,f,args,kw,st):
  a=[as_int(x) for x in args]
  if any(x is None for x in a): yield st,Exc('TypeError','range'); return
  if len(a)==1: a=[z3.IntVal(0),a[0],z3.IntVal(1)]
  elif len(a)==2: a=a+[z3.IntVal(1)]
  yield st,st.alloc('range',{'start':I(a[0]),'stop':I(a[1]),'step':I(a[2])})

def _bi_hash(s,f,args,kw,st):
  v=args[0]
  def h(v):
    if is_intlike(v): return as_int(v)          # hash is a function of the value
    if isinstance(v,Tup):
      acc=z3.IntVal(len(v.items))
      hf=z3.Function('hash_pair',z3.IntSort(),z3.IntSort(),z3.IntSort())
      for x in v.items:
        hx=h(x)
        if hx is None: return None
        acc=hf(acc,hx)
      return acc
    return None
  if isinstance(v,Ref) and v.cls=='list': yield st,Exc('TypeError','unhashable type: list'); return
  def _has_ref(t): return any(isinstance(x,Ref) or (isinstance(x,Tup) and _has_ref(x)) for x in t.items)
  if isinstance(v,Tup) and _has_ref(v):
    # hash of a tuple hashes every element (left to right): lists are unhashable, objects go through their __hash__
    def go(i,st,acc):
      if i==len(v.items):
        hf=z3.Function('hash_pair',z3.IntSort(),z3.IntSort(),z3.IntSort()); a=z3.IntVal(len(acc))
        for x in acc: a=hf(a,x)
        yield st,I(z3.Function('hash_int',z3.IntSort(),z3.IntSort())(a)); return
      for st1,r in _bi_hash(s,f,[v.items[i]],kw,st):
        if isinstance(r,Exc): yield st1,r
        else: yield from go(i+1,st1,acc+[as_int(r)])
    yield from go(0,st,[]); return
  r=h(v)
  if r is None:
    if isinstance(v,Ref) and s.reg.find_method(v.cls,'__hash__') is not None:
      yield from s.call_method(v,'__hash__',[],st); return
    raise Unsupported(f"hash({v!r})")
  yield st,I(z3.Function('hash_int',z3.IntSort(),z3.IntSort())(r))

def _bi_object_new(s,f,args,kw,st):
  c=args[0]
  if not isinstance(c,Cls): raise Unsupported("object.__new__ of non-class")
  yield st,st.alloc(c.name)

def _bi_minmax(s,f,args,kw,st):
  vals=args
  if len(args)==2 and any(isinstance(a,Ref) for a in args):
    # CPython: min(x,y) is y if y < x else x ; max(x,y) is y if y > x else x  (first argument wins ties)
    x,y=args
    for st1,r in s.compare(ast.Lt if f.name=='min' else ast.Gt,y,x,st):
      if isinstance(r,Exc): yield st1,r; continue
      for st2,t in s.truth(r,st1):
        if isinstance(t,Exc): yield st2,t; continue
        for st3,side in s.branch(st2,t): yield st3,(y if side else x)
    return
  if len(args)==1 and isinstance(args[0],Tup): vals=args[0].items
  xs=[as_int(v) for v in vals]
  if any(x is None for x in xs): raise Unsupported("min/max of non-int")
  acc=xs[0]
  for x in xs[1:]:
    acc=z3.If(x<acc,x,acc) if f.name=='min' else z3.If(x>acc,x,acc)
  yield st,I(acc)

def _bi_bool(s,f,args,kw,st):
  for st1,t in s.truth(args[0],st):
    yield (st1,t) if isinstance(t,Exc) else (st1,B(t))

def _bi_bit_length(s,f,args,kw,st):
  # trusted builtin contract: bit_length(x) = least k >= 0 with |x| < 2^k
  x=as_int(f.self); ax=z3.If(x>=0,x,-x)
  k=st.fresh_int('bitlen')
  th=st.th
  st1=st.fork(z3.And(k>=0, ax<th.pow2(k), z3.Or(k==0, th.pow2(k-1)<=ax)))
  yield st1,I(k)

def _bi_slice(s,args,kw,st):
  a=list(args)
  if len(a)==1: a=[NONE,a[0],NONE]
  elif len(a)==2: a=a+[NONE]
  yield st,SliceV(*a)

def _bi_tuple(s,args,kw,st):
  if not args: yield st,Tup([]); return
  it=s.concrete_items(args[0],st)
  if it is None: raise Unsupported("tuple() of symbolic collection")
  yield st,Tup(it)

def _bi_defaultdict(s,args,kw,st):
  from . import symcoll
  if len(args)!=1 or not (isinstance(args[0],Cls) and args[0].name in('set','list')): raise Unsupported("defaultdict with a factory other than set / list")
  # defaultdict(list): the lists are abstracted by their element sets; append / extend carry duplicate-freeness obligations
  st2=st.fork(); r=st2.alloc('dict'); st2.heap[(r.id,'dom')]=symcoll.EMPTY; st2.heap[(r.id,'val')]=z3.K(symcoll.Obj,symcoll.EMPTY)
  st2.heap[(r.id,'key')]=symcoll.ObjK(); st2.heap[(r.id,'vt')]=symcoll.SetOf(symcoll.ObjK()); st2.heap[(r.id,'default')]='set'
  yield st2,r
def _bi_listctor(s,args,kw,st):
  if not args: yield st,st.alloc('list',{'items':()}); return
  it=s.concrete_items(args[0],st)
  if it is None and (_setlike(args[0],st) or type(args[0]).__name__ in('DictSlot','SetV')):
    # list(<set>): a duplicate-free list in arbitrary order = the element-set abstraction of lists
    from . import symcoll
    arr,et=symcoll.setval(args[0],st); st2=st.fork(); yield st2,symcoll.new_setlist(st2,arr,et); return
  if it is None: raise Unsupported("list() of symbolic collection")
  yield st,st.alloc('list',{'items':tuple(it)})

def _bi_setctor(s,args,kw,st):
  from . import symcoll
  if not args: yield st,st.alloc('set',{'arr':symcoll.EMPTY,'elem':symcoll.ObjK()}); return
  arr,et=symcoll.setval(args[0],st); yield st,st.alloc('set',{'arr':arr,'elem':et or symcoll.ObjK()})

def _bi_intcls(s,args,kw,st):
  yield from _bi_int(s,None,args,kw,st)
def _bi_boolcls(s,args,kw,st):
  yield from _bi_bool(s,None,args,kw,st)

def _bi_super(s,f,args,kw,st):
  fn=getattr(s,'cur_fn',None); cls=getattr(s,'cur_cls',None)
  if fn is None or cls is None: raise Unsupported("super() outside a method under contract")
  selfv=st.env[fn.args.args[0].arg]
  bases=s.reg.classes[cls]['bases']
  if not bases: raise Unsupported("super() without base class")
  yield st,SuperV(selfv,bases[0])

def _bi_issubclass(s,f,args,kw,st):
  a,b=args
  cp=getattr(getattr(s,'contract',None),'class_predicates',None)
  if cp and isinstance(a,Opq) and isinstance(b,Cls) and ('issubclass:'+b.name) in cp:
    yield st,SPEC_FUNS[cp['issubclass:'+b.name]](s,[a],st); return
  if isinstance(a,ClsN) and isinstance(b,Cls): yield st,B(s.reg.is_subclass(a.base,b.name)); return
  if isinstance(a,Cls) and isinstance(b,Cls): yield st,B(s.reg.is_subclass(a.name,b.name)); return
  yield st,Exc('TypeError','issubclass() arg 1 must be a class')

def _bi_hasattr(s,f,args,kw,st):
  o,nm=args
  if isinstance(o,Ref) and isinstance(nm,S) and nm.py is not None:
    yield st,B((o.id,nm.py) in st.heap or s.reg.attr_kind(o.cls,nm.py) is not None); return
  raise Unsupported("hasattr on a value that is not under contract")
def _bi_shuffle(s,f,args,kw,st):
  o=args[0]
  if isinstance(o,Ref) and o.cls=='setlist': yield st,NONE; return      # any permutation: the abstraction by the element set is invariant
  raise Unsupported("random.shuffle of a list that is not abstracted by its element set")

BUILTIN_FNS={'hasattr':_bi_hasattr,'random.shuffle':_bi_shuffle,'super':_bi_super,'issubclass':_bi_issubclass,'int':_bi_int,'isinstance':_bi_isinstance,'abs':_bi_abs,'hex':_bi_hex,'str':_bi_str,'repr':_bi_repr,
  'len':_bi_len,'range':_bi_range,'hash':_bi_hash,'object.__new__':_bi_object_new,'min':_bi_minmax,'max':_bi_minmax,
  'bool':_bi_bool,'int.bit_length':_bi_bit_length,'bin':_bi_str,'oct':_bi_str}
def _bi_id(s,f,args,kw,st):
  from . import symcoll
  st2=st.fork(); st2.pc.append(symcoll.id_axiom()); yield st2,I(symcoll.IDF(symcoll.to_obj(args[0],st)))
BUILTIN_FNS['id']=_bi_id
BUILTIN_FNS['eval']=_bi_eval
def _bi_pq(s,args,kw,st):
  # queue.PriorityQueue used single-threaded: a duplicate-free collection from which get() removes some element (the minimum: any element is
  # a sound over-approximation for order-independent postconditions); put(x) carries the obligation that x is not yet queued
  from . import symcoll
  st2=st.fork(); yield st2,symcoll.new_setlist(st2,None,symcoll.PairOf(IntT(),IntT()))
BUILTIN_CLS={'PriorityQueue':_bi_pq,'defaultdict':_bi_defaultdict,'set':_bi_setctor,'slice':_bi_slice,'tuple':_bi_tuple,'list':_bi_listctor,'int':_bi_intcls,'bool':_bi_boolcls,'object':None,'str':None}

# ------------------------------------------------------------------------------------------------ spec functions (contract language)
def _sf_pow2(s,args,st): return I(st.th.pow2(as_int(args[0])))
def _sf_band(s,args,st): return I(st.th.band(as_int(args[0]),as_int(args[1])))
def _sf_bor(s,args,st):  return I(st.th.bor(as_int(args[0]),as_int(args[1])))
def _sf_bxor(s,args,st): return I(st.th.bxor(as_int(args[0]),as_int(args[1])))
def _sf_implies(s,args,st):
  a=list(s.truth(args[0],st))[0][1]; b=list(s.truth(args[1],st))[0][1]
  return B(z3.Implies(a,b))
def _sf_iff(s,args,st):
  a=list(s.truth(args[0],st))[0][1]; b=list(s.truth(args[1],st))[0][1]
  return B(a==b)
def _sf_divp(s,args,st): return I(st.th.divp(as_int(args[0]),as_int(args[1])))   # x div 2^k
def _sf_modp(s,args,st): return I(st.th.modp(as_int(args[0]),as_int(args[1])))   # x mod 2^k
def _sf_shl(s,args,st): return I(st.th.shl(as_int(args[0]),as_int(args[1])))   # x * 2^k
def _sf_b2i(s,args,st): return I(as_int(args[0]))
def _sf_fresh(s,args,st):
  # fresh(result): the object did not exist on entry
  r=args[0]
  return B(isinstance(r,Ref) and (r.id,'__class__') not in st.entry_heap)
def _sf_same(s,args,st):
  t=s.identical(args[0],args[1])
  if t is None: raise ToolError("same() on non-references")
  return B(t)
def _sf_isnone(s,args,st): return B(isinstance(args[0],NoneV))
def _sf_hash_of(s,args,st):
  rs=list(_bi_hash(s,None,[Tup(args)],{},st))
  return rs[0][1]
def _sf_unset(s,args,st):
  raise ToolError("unset() handled as a form")

SPEC_FUNS={'pow2':_sf_pow2,'band':_sf_band,'bor':_sf_bor,'bxor':_sf_bxor,'implies':_sf_implies,'iff':_sf_iff,
  'divp':_sf_divp,'modp':_sf_modp,'shl':_sf_shl,'b2i':_sf_b2i,'fresh':_sf_fresh,'same':_sf_same,'isnone':_sf_isnone,'hash_of':_sf_hash_of}
for _k in SPEC_FUNS: BUILTIN_FNS.setdefault(_k,None)
for _k in list(BUILTIN_FNS):
  if BUILTIN_FNS[_k] is None: del BUILTIN_FNS[_k]

def _form_old(s,e,st):
  # old(expr): evaluate in the entry heap with the entry values of the parameters
  st2=st.fork(); st2.heap=st.entry_heap; st2.env=dict(st.entry_env)
  for k,v in st.env.items():
    if k not in st2.env: st2.env[k]=v           # quantifier-bound and ghost names stay visible inside old(...)
  yield from ((st,v) for _,v in s.ev(e.args[0],st2))

def _form_isset(s,e,st):
  # isset(obj.field): the slot has been assigned
  a=e.args[0]
  for st1,o in s.ev(a.value,st):
    yield st,B(isinstance(o,Ref) and (o.id,a.attr) in st.heap)

def _form_pre(s,e,st):
  # pre(expr): evaluate in the heap as it was when the innermost enclosing loop under contract was entered (names keep their current meaning)
  snap=st.ghost.get('__pre__')
  if snap is None: raise ToolError("pre(...) outside a loop invariant")
  st2=st.fork(); st2.heap=snap
  yield from ((st,v) for _,v in s.ev(e.args[0],st2))

SPEC_FORMS={'old':_form_old,'isset':_form_isset,'pre':_form_pre}
SPEC_MACROS={}     # name -> (params, expr ast): expanded by substitution

def _form_macro(name):
  def f(s,e,st):
    params,body=SPEC_MACROS[name]
    # evaluate arguments, bind as spec-env names, evaluate body
    for st1,vals in s.evs(list(e.args),st):
      if isinstance(vals,Exc): raise ToolError(f"macro argument raised {vals}")
      old=s.spec_env; s.spec_env=dict(old or {}); s.spec_env.update(zip(params,vals))
      saved={p:st1.env.get(p) for p in params}
      st2=st1.fork(); st2.env.update(zip(params,vals))
      try:
        for _,v in s.ev(body,st2): yield st1,v
      finally: s.spec_env=old
  return f

def define_macro(sig,body):
  """define_macro('valid(b)','1 <= b._nbits and ...') - usable in contracts and by the runtime evaluator."""
  t=ast.parse(sig,mode='eval').body
  name=t.func.id; params=[a.id for a in t.args]
  SPEC_MACROS[name]=(params,parse_spec(body))
  from .symexec_macros import MACROS
  MACROS[name]=(params,body)
  SPEC_FORMS[name]=_form_macro(name)

def register_spec_fun(name,sym,native):
  """sidecar-defined spec function: sym(executor,args,state)->Val ; native(*args)->value"""
  SPEC_FUNS[name]=sym
  from . import runtime
  runtime.NATIVE[name]=native

class BitsClsT(SpecType):
  """a generated BitsN class object with symbolic N (bits_import template)."""
  tag='bitscls'
  def make(s,name,st,fresh):
    pins=st.ghost.get('__pins__') or {}
    nm=f"{name}.N"
    c=z3.IntVal(pins[nm]) if nm in pins else z3.Int(nm)
    st.syms.append((nm,c)); st.pc.append(z3.And(c>=1,c<=1023))
    return ClsN('Bits',c)
  def build_native(s,name,model,repo,reg):
    from . import runtime
    m=runtime.load_module(repo,'pymtl3/datatypes/bits_import.py')
    return m.mk_bits(int(model.get(f"{name}.N",1)))
  def sample(s,rng,n,repo,reg):
    from . import runtime
    m=runtime.load_module(repo,'pymtl3/datatypes/bits_import.py')
    return m.mk_bits(rng.choice([n,n,max(1,n-1),min(1023,n+1),rng.choice([1,2,8,32,64,512,1023])]))
