"""Sidecar contract data structures, the registry, and extraction of the real source from /repo."""
import ast, hashlib, os
from .values import *
from .symexec import (SpecType, IntT, BoolT, NoneT, StrT, OtherT, ObjT, SliceT, OneOf, TupleT, expand, type_label,
                      parse_spec, ToolError, Executor, mk_value)
from . import REPO

class Case:
  def __init__(s,name,requires='True',ensures=None,raises=None,raises_today=None,when=None,modifies=None,returns=None,
               raises_or_ensures=False, source=None, raise_only_if=None):
    s.name=name; s.requires=requires; s.ensures=ensures; s.raises=raises; s.raises_today=raises_today
    s.when=when or {}; s.modifies=modifies; s.returns=returns; s.raises_or_ensures=raises_or_ensures; s.source=source; s.raise_only_if=raise_only_if
  def applies(s,tags):
    """tags: param -> type tag of the actual argument (call sites) or label of the view variant."""
    for p,t in s.when.items():
      ts=t if isinstance(t,(tuple,list)) else (t,)
      tag=tags.get(p) or ''
      if not any(tag==x or tag.startswith(x+'(') or x.startswith(tag+'(') for x in ts): return False
    return True
  def clauses(s):
    """top-level conjuncts of the postcondition, each its own obligation."""
    if not s.ensures: return []
    t=parse_spec(s.ensures)
    if isinstance(t,ast.BoolOp) and isinstance(t.op,ast.And): return list(t.values)
    return [t]

class Loop:
  def __init__(s,invariant,decreases=None,modifies=(),lemmas=(),ghost=()):
    s.invariant=list(invariant); s.decreases=decreases; s.modifies=list(modifies); s.lemmas=list(lemmas); s.ghost=tuple(ghost)

class Contract:
  def __init__(s,key,view,cases,modifies=(),returns=None,source_of_post='',loops=None,ghost=None,property_ids=(),trusted=False,
               sample=None, build=None, note='', bounded=None, standin_inputs=None, refute_pins=None, call_effect=None, native=None, ghost_hooks=None, abstract_lists=(), ghost_init=None, exit_lemmas=(), native_post=None, json_args=None, opaque_methods=None, pure_methods=None, class_predicates=None, list_elems=None, region=None, opaque_attrs=False, pure_functions=(), post_locals=False):
    s.post_locals=post_locals; s.region=region; s.opaque_attrs=opaque_attrs; s.pure_functions=tuple(pure_functions); s.list_elems=list_elems or {}; s.native_post=native_post; s.json_args=json_args; s.opaque_methods=opaque_methods or {}; s.pure_methods=pure_methods or {}; s.class_predicates=class_predicates or {}
    s.key=key; s.file,s.qual=key.split('::'); s.view=view; s.cases=cases; s.modifies=list(modifies)
    s.returns=returns; s.source_of_post=source_of_post; s.loops=loops or {}; s.ghost=ghost or {}
    s.property_ids=tuple(property_ids); s.trusted=trusted; s.sample=sample; s.build=build; s.note=note
    s.bounded=bounded; s.standin_inputs=standin_inputs; s.refute_pins=refute_pins; s.call_effect=call_effect; s.native=native; s.ghost_hooks=ghost_hooks or {}; s.abstract_lists=dict(abstract_lists) if isinstance(abstract_lists,dict) else tuple(abstract_lists); s.ghost_init=ghost_init; s.exit_lemmas=list(exit_lemmas)
    s._reg=None
  def module(s,reg): return reg.module(s.file)
  def fn_ast(s,reg): return reg.module(s.file).function(s.qual)
  def param_names(s):
    f=s.fn_ast(s._reg)
    return [a.arg for a in f.args.args]+[a.arg for a in f.args.kwonlyargs]
  def vararg(s):
    f=s.fn_ast(s._reg)
    return f.args.vararg.arg if f.args.vararg else None
  def bind(s,params,argv,kw,ex):
    f=s.fn_ast(s._reg); env={}
    va=s.vararg()
    npos=len(f.args.args)
    if va is not None:
      from .values import Tup
      env[va]=Tup(argv[npos:]); argv=argv[:npos]
    if len(argv)>npos: return Exc('TypeError','too many arguments')
    for p,v in zip(params,argv): env[p]=v
    for k,v in kw.items():
      if k not in params or k in env: return Exc('TypeError','bad keyword')
      env[k]=v
    defaults=list(f.args.defaults); dparams=[a.arg for a in f.args.args][len(f.args.args)-len(defaults):]
    for a,d in zip(f.args.kwonlyargs,f.args.kw_defaults):
      if d is not None: dparams.append(a.arg); defaults.append(d)
    for p,d in zip(dparams,defaults):
      if p not in env:
        if isinstance(d,ast.Constant):
          from .values import I,B,NONE,S
          v=d.value
          env[p]=B(v) if isinstance(v,bool) else I(v) if isinstance(v,int) else NONE if v is None else S(v)
        else: raise ToolError(f"non-constant default for {p}")
    for p in params:
      if p not in env: return Exc('TypeError',f'missing argument {p}')
    return env
  def variants(s):
    """all alternative-free instantiations of the view: list of dict param -> SpecType."""
    import itertools
    names=list(s.view)
    out=[]
    for combo in itertools.product(*[expand(s.view[n]) for n in names]):
      out.append(dict(zip(names,combo)))
    return out

class ModuleInfo:
  """the real source file, parsed at check time."""
  def __init__(s,relpath,reg):
    s.reg=reg
    s.rel=relpath; s.path=os.path.join(reg.repo,relpath)
    s.src=open(s.path).read(); s.tree=ast.parse(s.src)
    s.functions={}; s.classes={}; s.globals={}
    s.imported={a.asname or a.name for n in s.tree.body if isinstance(n,ast.ImportFrom) for a in n.names}
    s._index(s.tree.body,'')
  def _index(s,body,prefix):
    for n in body:
      if isinstance(n,(ast.FunctionDef,)):
        s.functions[prefix+n.name]=n
        s._index(n.body,prefix+n.name+'.')
      elif isinstance(n,ast.ClassDef):
        s.classes[prefix+n.name]=n
        s._index(n.body,prefix+n.name+'.')
      elif isinstance(n,(ast.If,ast.Try,ast.For,ast.While,ast.With)):
        for fld in ('body','orelse','finalbody'):
          s._index(getattr(n,fld,[]) or [],prefix)
        for h in getattr(n,'handlers',[]) or []: s._index(h.body,prefix)
  def function(s,qual):
    if qual not in s.functions and '@' in qual:
      # 'Class.func@name': a contiguous run of statements of the function (a region), extracted mechanically: from the first statement
      # whose text starts with the contract's start text to the first following sibling whose text starts with its end text (exclusive)
      base,name=qual.split('@',1); fn=s.function(base); start,end=s.reg.regions[(s.rel,qual)]
      norm=lambda x: ' '.join(ast.unparse(x).split())
      for node in ast.walk(fn):
        for fld in ('body','orelse','finalbody'):
          seq=getattr(node,fld,None)
          if not isinstance(seq,list): continue
          for i,x in enumerate(seq):
            if isinstance(x,ast.stmt) and norm(x).startswith(start):
              j=len(seq) if end is None else next((k for k in range(i+1,len(seq)) if norm(seq[k]).startswith(end)),None)      # end None: to the end of the enclosing statement list
              if j is None: continue
              f=ast.FunctionDef(name=name,args=ast.arguments(posonlyargs=[],args=[],kwonlyargs=[],kw_defaults=[],defaults=[]),body=seq[i:j],decorator_list=[],returns=None,type_comment=None,type_params=[])
              ast.copy_location(f,seq[i]); f.end_lineno=seq[j-1].end_lineno; ast.fix_missing_locations(f)
              s.functions[qual]=f; return f
      raise ToolError(f"cannot extract region {s.rel}::{qual}: statements '{start}' .. '{end}' not found")
    if qual not in s.functions:
      f=s._dict_entry(qual)
      if f is not None: s.functions[qual]=f
      else: raise ToolError(f"cannot extract {s.rel}::{qual}: function not found")
    return s.functions[qual]
  def _dict_entry(s,qual):
    """'TABLE.KEY': the function stored under KEY in the module-level dict literal TABLE (a lambda is extracted as
    `def KEY(args): return <body>`, a bare name f as `def KEY(*a): return f(*a)` with the table's arity)."""
    if '.' not in qual: return None
    tab,key=qual.split('.',1)
    for n in s.tree.body:
      if isinstance(n,ast.Assign) and len(n.targets)==1 and isinstance(n.targets[0],ast.Name) and n.targets[0].id==tab and isinstance(n.value,ast.Dict):
        arity=None
        for k,v in zip(n.value.keys,n.value.values):
          if isinstance(v,ast.Lambda): arity=[a.arg for a in v.args.args]
        for k,v in zip(n.value.keys,n.value.values):
          kn=k.attr if isinstance(k,ast.Attribute) else k.id if isinstance(k,ast.Name) else str(getattr(k,'value',None))
          if kn!=key: continue
          if isinstance(v,ast.Lambda):
            f=ast.FunctionDef(name=key,args=v.args,body=[ast.Return(v.body)],decorator_list=[],returns=None,type_comment=None,type_params=[])
          elif isinstance(v,ast.Name) and arity:
            f=ast.FunctionDef(name=key,args=ast.arguments(posonlyargs=[],args=[ast.arg(a) for a in arity],kwonlyargs=[],kw_defaults=[],defaults=[]),
                              body=[ast.Return(ast.Call(ast.Name(v.id,ast.Load()),[ast.Name(a,ast.Load()) for a in arity],[]))],decorator_list=[],returns=None,type_comment=None,type_params=[])
          else: return None
          ast.copy_location(f,v); ast.fix_missing_locations(f); return f
    return None
  def ast_hash(s,qual):
    return fn_hash(s.function(qual))
  def lines(s,qual):
    f=s.function(qual); return (f.lineno,f.end_lineno)

def strip_doc(f):
  body=f.body
  if body and isinstance(body[0],ast.Expr) and isinstance(body[0].value,ast.Constant) and isinstance(body[0].value.value,str):
    return body[1:] or [ast.Pass()]
  return body

def fn_hash(f):
  """sha256 of the normalised AST (docstring dropped, no positions)."""
  f2=ast.parse(ast.unparse(f)).body[0]
  f2.body=strip_doc(f2)
  return hashlib.sha256(ast.dump(f2,include_attributes=False).encode()).hexdigest()

class GenModule:
  """captured generated source (bitstruct methods ...): behaves like a ModuleInfo whose functions are the captured FunctionDefs."""
  def __init__(s,rel):
    s.rel=rel; s.functions={}; s.classes={}; s.globals={}; s.fn_globals={}; s.src={}
  def add(s,qual,src,globs):
    t=ast.parse(src).body[0]; s.functions[qual]=t; s.fn_globals[qual]=globs; s.src[qual]=src
  def function(s,qual):
    if qual not in s.functions: raise ToolError(f"cannot extract {s.rel}::{qual}: not captured")
    return s.functions[qual]
  def ast_hash(s,qual): return fn_hash(s.function(qual))
  def lines(s,qual): return (0,0)

class Registry:
  def __init__(s,repo=REPO):
    s.repo=repo; s.contracts={}; s.modules={}; s.classes={}   # class name -> dict(file, slots, bases, exception)
    s.handlers=[]; s.loop_handlers=[]; s.module_globals={}; s.gen_classes={}; s.regions={}
  def add(s,c):
    c._reg=s; s.contracts[c.key]=c
    if getattr(c,'region',None): s.regions[(c.file,c.qual)]=c.region
    return c
  def module(s,rel):
    if rel not in s.modules:
      m=ModuleInfo(rel,s); s.modules[rel]=m
      g=s.module_globals.get(rel)
      if g: m.globals.update(g(s,m) if callable(g) else g)
    return s.modules[rel]
  def declare_class(s,name,file,slots=None,bases=(),exception=False):
    s.classes[name]=dict(file=file,slots=slots,bases=tuple(bases),exception=exception)
  def has_class(s,n): return n in s.classes
  def is_exception(s,n): return s.classes.get(n,{}).get('exception',False)
  def exc_subclass(s,c,parent):
    seen=set()
    while c in s.classes and c not in seen:
      seen.add(c)
      for b in s.classes[c]['bases']:
        if b==parent: return True
      bs=s.classes[c]['bases']
      c=bs[0] if bs else None
    return False
  def is_subclass(s,c,parent):
    if c==parent: return True
    return s.exc_subclass(c,parent)
  def _cls_node(s,cls):
    info=s.classes.get(cls)
    if not info or not info.get('file'): return None
    return s.module(info['file']).classes.get(cls)
  def find_method(s,cls,name):
    g=s.gen_classes.get(cls)
    if g is not None: return g['methods'].get(name)
    n=s._cls_node(cls)
    if n is None: return None
    for b in n.body:
      if isinstance(b,ast.FunctionDef) and b.name==name and not any(isinstance(d,ast.Name) and d.id=='property' for d in b.decorator_list):
        return b
    for base in s.classes[cls]['bases']:
      r=s.find_method(base,name)
      if r is not None: return r
    return None
  def find_property(s,cls,name):
    n=s._cls_node(cls)
    if n is None: return None
    for b in n.body:
      if isinstance(b,ast.FunctionDef) and b.name==name and any(isinstance(d,ast.Name) and d.id=='property' for d in b.decorator_list):
        return b
    return None
  def attr_kind(s,cls,attr):
    if s.find_property(cls,attr) is not None: return 'property'
    if s.find_method(cls,attr) is not None: return 'method'
    return None
  def may_set(s,cls,attr):
    info=s.classes.get(cls)
    if info and info.get('slots') is not None: return attr in info['slots']
    return True
  def contract_for(s,name,mod):
    """name: 'Class.method' or 'func' (resolved in the class's / current module's file)."""
    if '.' in name and name.split('.')[0] in s.gen_classes:
      return s.contracts.get(f"{s.gen_classes[name.split('.')[0]]['file']}::{name}")
    if '.' in name:
      cls=name.split('.')[0]
      info=s.classes.get(cls)
      if info:
        # walk bases for inherited methods
        key=f"{info['file']}::{name}"
        if key in s.contracts: return s.contracts[key]
        for b in info['bases']:
          r=s.contract_for(b+'.'+name.split('.',1)[1],mod)
          if r is not None: return r
    if mod is not None:
      key=f"{mod.rel}::{name}"
      if key in s.contracts: return s.contracts[key]
    for k,c in s.contracts.items():
      if k.endswith('::'+name): return c
    return None
  def coll_handler(s,o,st):
    for h in s.handlers:
      if h.handles(o,st): return h
    return None
  def loop_handler(s,ex,node,it,st):
    for h in s.loop_handlers:
      r=h(ex,node,it,st)
      if r is not None: return r
    return None
  def while_handler(s,ex,node,st):
    for h in s.loop_handlers:
      r=h(ex,node,None,st)
      if r is not None: return r
    return None
  def opaque_attr(s,o,attr,st): return None
