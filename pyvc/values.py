"""Value domain of the symbolic executor.  All values are immutable; mutable
Python objects (instances, lists) live in State.heap and are referred to by Ref."""
import z3

class Val: pass

class I(Val):
  """Python int (unbounded) as an SMT Int term."""
  __slots__=('t',)
  def __init__(s,t): s.t = t if isinstance(t,z3.ExprRef) else z3.IntVal(t)
  def __repr__(s): return f"I({s.t})"

class B(Val):
  """Python bool as an SMT Bool term."""
  __slots__=('t',)
  def __init__(s,t): s.t = t if isinstance(t,z3.ExprRef) else z3.BoolVal(bool(t))
  def __repr__(s): return f"B({s.t})"

class NoneV(Val):
  def __repr__(s): return "None"
NONE = NoneV()

class S(Val):
  """string; content opaque unless py is given or t is a z3 String term."""
  __slots__=('py','t')
  def __init__(s,py=None,t=None): s.py=py; s.t=t
  def __repr__(s): return f"S({s.py!r})"

class Ref(Val):
  """reference to a heap object of class cls (a string)."""
  __slots__=('id','cls')
  def __init__(s,id,cls): s.id=id; s.cls=cls
  def __repr__(s): return f"Ref({s.cls}#{s.id})"
  def __eq__(s,o): return isinstance(o,Ref) and o.id==s.id
  def __hash__(s): return hash(s.id)

class SliceV(Val):
  __slots__=('start','stop','step')
  def __init__(s,a,b,c): s.start=a; s.stop=b; s.step=c
  def __repr__(s): return f"slice({s.start},{s.stop},{s.step})"

class Tup(Val):
  __slots__=('items',)
  def __init__(s,items): s.items=tuple(items)
  def __repr__(s): return f"Tup{s.items}"

class Cls(Val):
  """a class object (Bits, slice, int, exception classes ...)"""
  __slots__=('name',)
  def __init__(s,name): s.name=name
  def __repr__(s): return f"Cls({s.name})"

class Fn(Val):
  """a function / builtin / bound method designator."""
  __slots__=('name','self')
  def __init__(s,name,self=None): s.name=name; s.self=self
  def __repr__(s): return f"Fn({s.name})"

class Other(Val):
  """an object that is neither int-like nor Bits-like: has no attributes we know,
  int() of it raises.  Used for the 'non-int object' cases of ==/!=."""
  def __repr__(s): return "Other"
OTHER = Other()

class Table(Val):
  """module-level constant list whose element i is spec(i) for 0 <= i < n."""
  __slots__=('name','n','spec')
  def __init__(s,name,n,spec): s.name=name; s.n=n; s.spec=spec

class Opq(Val):
  """opaque value of an uninterpreted sort (framework objects whose identity is all that matters)."""
  __slots__=('t','kind')
  def __init__(s,t,kind): s.t=t; s.kind=kind
  def __repr__(s): return f"Opq({s.kind}:{s.t})"

class SuperV(Val):
  __slots__=('selfv','parent')
  def __init__(s,selfv,parent): s.selfv=selfv; s.parent=parent

class ClsN(Val):
  """a generated fixed-width subclass of `base` (BitsN): width n is a term."""
  __slots__=('base','n')
  def __init__(s,base,n): s.base=base; s.n=n
  def __repr__(s): return f"ClsN({s.base},{s.n})"

class Exc:
  """abrupt completion: exception of class cls (string)."""
  __slots__=('cls','note')
  def __init__(s,cls,note=""): s.cls=cls; s.note=note
  def __repr__(s): return f"Exc({s.cls}:{s.note})"

EXC_PARENTS = {
  'BaseException':None,'Exception':'BaseException','ArithmeticError':'Exception','ZeroDivisionError':'ArithmeticError',
  'OverflowError':'ArithmeticError',
  'AssertionError':'Exception','AttributeError':'Exception','LookupError':'Exception','IndexError':'LookupError',
  'KeyError':'LookupError','TypeError':'Exception','ValueError':'Exception','NameError':'Exception',
  'UnboundLocalError':'NameError','NotImplementedError':'Exception','RuntimeError':'Exception','StopIteration':'Exception',
}
def exc_subclass(c, parent):
  while c is not None:
    if c==parent: return True
    c = EXC_PARENTS.get(c,'Exception' if c not in ('BaseException',) else None) if c!='BaseException' else None
  return False

class Unsupported(Exception):
  """construct outside the verified subset: the function is out of reach (never silently skipped)."""
