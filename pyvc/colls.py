"""Collection handlers: Python-level semantics of built-in mutable collections for the executor."""
import z3
from .values import *
from .symexec import as_int, is_intlike, const_int, Unsupported

class ConcreteList:
  """list of statically known length: heap cell (id,'items') holds a tuple of values."""
  METHODS={'append','extend','pop','insert','__len__','index','copy','reverse','__iadd__'}
  def handles(s,o,st): return isinstance(o,Ref) and o.cls=='list' and (o.id,'items') in st.heap
  def has_method(s,m): return m in s.METHODS
  def contains(s,ex,o,x,st,negate):
    yield from ex.contains(Tup(st.heap[(o.id,'items')]),x,st,negate)
  def getitem(s,ex,o,idx,st): raise Unsupported("handled by executor")
  def setitem(s,ex,o,idx,v,st): raise Unsupported("handled by executor")
  def call(s,ex,o,m,args,kw,st):
    items=st.heap[(o.id,'items')]
    if m=='append':
      st2=st.fork(); st2.heap[(o.id,'items')]=items+(args[0],); yield st2,NONE
    elif m in('extend','__iadd__'):
      more=ex.concrete_items(args[0],st)
      if more is None: raise Unsupported("extend with symbolic collection")
      st2=st.fork(); st2.heap[(o.id,'items')]=items+tuple(more); yield st2,(o if m=='__iadd__' else NONE)
    elif m=='pop':
      if not items: yield st,Exc('IndexError','pop from empty list'); return
      i=-1
      if args:
        i=const_int(as_int(args[0]))
        if i is None: raise Unsupported("pop with symbolic index")
      if not -len(items)<=i<len(items): yield st,Exc('IndexError'); return
      l=list(items); v=l.pop(i); st2=st.fork(); st2.heap[(o.id,'items')]=tuple(l); yield st2,v
    elif m=='insert':
      i=const_int(as_int(args[0]))
      if i is None: raise Unsupported("insert with symbolic index")
      l=list(items); l.insert(i,args[1]); st2=st.fork(); st2.heap[(o.id,'items')]=tuple(l); yield st2,NONE
    elif m=='__len__': yield st,I(len(items))
    elif m=='copy': yield st,st.alloc('list',{'items':items})
    elif m=='reverse':
      st2=st.fork(); st2.heap[(o.id,'items')]=tuple(reversed(items)); yield st2,NONE
    else: raise Unsupported(f"list.{m}")
