"""Obligation generation for one contract and discharge by z3 / cvc5."""
import ast, time, os, subprocess, tempfile, json
import z3
from .values import *
from .symexec import *
from .theory import Theory, RefuteTheory
from .contracts import strip_doc, fn_hash

# the legacy arithmetic core decides these div/mod-by-pow2 problems ~50x faster than the default one (measured);
# anything it leaves open is retried with the default core and then with cvc5.
z3.set_param('smt.arith.solver',2)

class Query:
  __slots__=('assumptions','goal','th','variant','path','syms','note','types')
  def __init__(s,assumptions,goal,th,variant,path,syms,note='',types=None):
    s.assumptions=assumptions; s.goal=goal; s.th=th; s.variant=variant; s.path=path; s.syms=syms; s.note=note; s.types=types

class Obligation:
  def __init__(s,name,kind,key,case):
    s.name=name; s.kind=kind; s.key=key; s.case=case; s.queries=[]
    s.status=None; s.time=0.0; s.solver=None; s.cex=None; s.detail=''; s.nq=0
  def summary(s):
    return dict(name=s.name,kind=s.kind,status=s.status,queries=s.nq,time=round(s.time,3),solver=s.solver,cex=s.cex,detail=s.detail)

def variant_label(variant):
  return ','.join(f"{p}:{type_label(t)}" for p,t in variant.items())

def generate(reg,c,pins=None,only_case=None,only_variant=None,extra_requires=()):
  """symbolically execute the real function of contract c for every (view variant, case); return obligations.
  pins: {symbol name: int} - symbols replaced by numerals (refutation mode)."""
  fn=c.fn_ast(reg); mod=c.module(reg)
  obls={}
  def ob(kind,case,extra=''):
    name=f"{kind}::{c.key}::{case}{extra}"
    if name not in obls: obls[name]=Obligation(name,kind,c.key,case)
    return obls[name]
  info=dict(paths=0,variants=0)
  for variant in c.variants():
    label={p:type_label(t) for p,t in variant.items()}
    vl=variant_label(variant)
    if only_variant is not None and vl!=only_variant: continue
    for cs in c.cases:
      if not cs.applies(label): continue
      if only_case is not None and cs.name!=only_case: continue
      info['variants']+=1
      th=Theory() if not pins else RefuteTheory(pins.get('__W__',24)); st=State(th)
      if pins: st.ghost['__pins__']=pins
      env={p:mk_value(t,p,st) for p,t in variant.items()}
      ex=Executor(reg,mod); ex.contract=c; ex.cur_fn=fn; ex.cur_cls=c.qual.split('.')[0] if '.' in c.qual else None
      req=ex.spec_bool(cs.requires,env,st,st.heap,None)
      st.pc.append(req)
      for xr in extra_requires: st.pc.append(ex.spec_bool(xr,env,st,st.heap,None))
      if not feasible(st):     # this (variant, case) pair is empty, e.g. 'stepped' with step None; cover is guarded natively per case
        info['variants']-=1; continue
      st.entry_env=dict(env); st.entry_heap=dict(st.heap); st.env=dict(env)
      if c.ghost_init is not None: c.ghost_init(ex,st)
      # every declared case precondition must be satisfiable (vacuity guard) - checked natively by the sampler (cover)
      outs=list(ex.block(strip_doc(fn),st))
      for pi,(so,ctl) in enumerate(outs):
        info['paths']+=1
        pid=f"{vl}#p{pi}"
        mk=lambda goal,note='': Query(list(so.pc),goal,th,vl,pid,list(st.syms),note,variant)
        if ctl is None: ctl=('return',NONE)
        if ctl[0]=='return':
          for lm in c.exit_lemmas:      # instances of the finite-set lemmas named in the contract (listed as assumptions)
            so.pc.append(ex.spec_bool(lm,dict(so.env),so,so.heap,st.entry_heap,st.entry_env))
          if cs.raises is not None and not cs.raises_or_ensures:
            ob('raises',cs.name).queries.append(mk(z3.BoolVal(False),f"returns {ctl[1]!r} instead of raising {cs.raises}"))
            continue
          env2=dict(env); env2['result']=ctl[1]
          if getattr(c,'region',None) or getattr(c,'post_locals',False): env2.update(so.env)        # a region's postcondition speaks about the locals at its end
          for gk,gv in so.env.items():
            if gk.startswith('g_'): env2[gk]=gv
          for k,cl in enumerate(cs.clauses()):
            try:
              g=ex.spec_bool(cl,env2,so,so.heap,st.entry_heap,st.entry_env)
            except ToolError as e:
              # e.g. result has a different type than the clause expects: the clause is false on this path
              g=z3.BoolVal(False); note=f"clause not evaluable on this path: {e}"
            else: note=ast.unparse(cl)
            ob('post',cs.name,f"::{k}").queries.append(mk(g,note))
          # frame: every field of every pre-existing object not listed in modifies is unchanged
          mods=set(cs.modifies if cs.modifies is not None else c.modifies)
          modlocs=set()
          for loc in mods: modlocs|=resolve_locs(loc,env,st.entry_heap)
          diffs=[]
          for (oid,f),v0 in st.entry_heap.items():
            if f=='__class__' or (oid,f) in modlocs: continue
            v1=so.heap.get((oid,f))
            if v1 is v0: continue
            if v1 is None: diffs.append(z3.BoolVal(False)); continue
            if isinstance(v0,z3.ExprRef) and isinstance(v1,z3.ExprRef): diffs.append(v0==v1)
            elif is_intlike(v0) and is_intlike(v1): diffs.append(as_int(v0)==as_int(v1))
            elif isinstance(v0,Ref) and isinstance(v1,Ref): diffs.append(z3.BoolVal(v0.id==v1.id))
            elif not isinstance(v0,Val) and v0==v1: continue
            else: diffs.append(z3.BoolVal(False))
          for (oid,f) in so.heap:
            if (oid,'__class__') in st.entry_heap and (oid,f) not in st.entry_heap and (oid,f) not in modlocs:
              diffs.append(z3.BoolVal(False))     # a new slot appeared on a pre-existing object
          ob('frame',cs.name).queries.append(mk(z3.And(*diffs) if diffs else z3.BoolVal(True),'frame'))
        elif ctl[0]=='raise':
          exc=ctl[1]
          if cs.raises is not None:
            okc = cs.raises=='Exception' or ex.exc_sub(exc.cls,cs.raises)
            goal=z3.BoolVal(okc); note=f"raises {exc.cls} ({exc.note}), contract wants {cs.raises}"
            if okc and cs.raise_only_if is not None:
              # an exception is acceptable only in the situation the statement names (evaluated over the locals at the raise point)
              try: goal=ex.spec_bool(cs.raise_only_if,dict(so.env),so,so.heap,st.entry_heap,st.entry_env)
              except (ToolError,Unsupported,KeyError): goal=z3.BoolVal(False)
              note=f"raises {exc.cls} ({exc.note}) although not ({cs.raise_only_if})"
            ob('raises',cs.name).queries.append(mk(goal,note))
            # an exception case promises the object state is untouched
            diffs=[]
            mods=set(cs.modifies if cs.modifies is not None else c.modifies); modlocs=set()
            for loc in mods: modlocs|=resolve_locs(loc,env,st.entry_heap)
            for (oid,f),v0 in st.entry_heap.items():
              if f=='__class__' or (oid,f) in modlocs: continue
              v1=so.heap.get((oid,f))
              if v1 is v0: continue
              if v1 is not None and isinstance(v0,z3.ExprRef) and isinstance(v1,z3.ExprRef): diffs.append(v0==v1)
              elif v1 is not None and is_intlike(v0) and is_intlike(v1): diffs.append(as_int(v0)==as_int(v1))
              elif v1 is not None and not isinstance(v0,Val) and v0==v1: continue
              else: diffs.append(z3.BoolVal(False))
            for (oid,f) in so.heap:
              if (oid,'__class__') in st.entry_heap and (oid,f) not in st.entry_heap and (oid,f) not in modlocs:
                diffs.append(z3.BoolVal(False))
            if diffs: ob('frame',cs.name).queries.append(mk(z3.And(*diffs),'state changed before raising'))
          else:
            ob('noexc',cs.name).queries.append(mk(z3.BoolVal(False),f"raises {exc.cls} ({exc.note})"))
        else:
          raise ToolError(f"loop control escaped function: {ctl}")
      # side obligations collected during execution
      for (kind,callee,pc,goal,sst) in st.vcs:
        ob(kind,cs.name,f"::{callee}").queries.append(Query(pc,goal,th,vl,f"{vl}#call",list(st.syms),f"precondition of {callee}",variant))
      if not outs:
        raise ToolError(f"{c.key} case {cs.name} variant {vl}: precondition unsatisfiable or no path (vacuous)")
  return list(obls.values()),info

def _numerals(forms,limit=16):
  seen=set(); out=[]; stack=list(forms); visited=set()
  while stack and len(visited)<20000:
    t=stack.pop()
    if t.get_id() in visited: continue
    visited.add(t.get_id())
    if z3.is_int_value(t):
      v=t.as_long()
      if 2<=v<=1100 and v not in seen: seen.add(v); out.append(v)
      continue
    stack.extend(t.children())
  return sorted(out)[:limit]

def solve_query(q,timeout_ms=20000,want_model=True):
  """returns (status, seconds, solver, model-dict|None).  Portfolio: legacy and default arithmetic cores of z3 with a short
  budget first, then the full budget, then cvc5 on the same text."""
  t0=time.time()
  g=z3.simplify(q.goal)
  if z3.is_true(g): return 'unsat',0.0,'trivial',None
  base=list(q.assumptions)+[z3.Not(g)]
  insts={}
  def attempt(core,ms,with_inst):
    z3.set_param('smt.arith.solver',core)
    s=z3.Solver(); s.set('timeout',ms)
    for a in base: s.add(a)
    if with_inst:
      if with_inst not in insts: insts[with_inst]=q.th.instances(with_inst,numerals=_numerals(base))
      for i in insts[with_inst]: s.add(i)
    return s,s.check()
  s,r=attempt(2,1500,0)            # without lemma instances the theory is weaker: unsat is still sound
  if r!=z3.unsat:
    short=min(2500,timeout_ms)
    done=set()
    for core,ms,lvl in ((2,short,1),(6,short,1),(2,short,2),(6,short,2),(2,timeout_ms,2),(6,timeout_ms,2)):
      if lvl not in insts: insts[lvl]=q.th.instances(lvl,numerals=_numerals(base))
      sig=(core,ms,len(insts[lvl]))           # a VC without bit-vector idioms has no lemma instances: do not repeat identical attempts
      if sig in done: continue
      done.add(sig)
      s,r=attempt(core,ms,lvl)
      if r==z3.unsat or (r==z3.sat and lvl==2): break
  z3.set_param('smt.arith.solver',2)
  dt=time.time()-t0
  if r==z3.unsat: return 'unsat',dt,'z3',None
  if r==z3.sat:
    m=s.model(); d={}
    for nm,sym in q.syms:
      v=m.eval(sym,model_completion=True) if not z3.is_int_value(sym) else sym
      d[nm]= (v.as_long() if z3.is_int_value(v) else bool(z3.is_true(v)))
    return 'sat',dt,'z3',d
  r2=cvc5_check(s.to_smt2(),timeout_ms)
  dt=time.time()-t0
  if r2=='unsat': return 'unsat',dt,'cvc5',None
  # quantifier instantiation is sensitive to the search order: two more attempts with other random seeds before giving up
  for seed in (11,23):
    s3=z3.Solver(); s3.set('timeout',timeout_ms); s3.set('random_seed',seed)
    for a in base: s3.add(a)
    for i in insts.get(2,[]): s3.add(i)
    if s3.check()==z3.unsat: return 'unsat',time.time()-t0,'z3(reseeded)',None
  return 'unknown',time.time()-t0,'z3+cvc5',None

def cvc5_check(smt2,timeout_ms):
  with tempfile.NamedTemporaryFile('w',suffix='.smt2',delete=False) as f:
    f.write("(set-logic ALL)\n"+smt2); p=f.name
  try:
    r=subprocess.run(['/usr/bin/cvc5',f'--tlimit={timeout_ms}',p],capture_output=True,text=True,timeout=timeout_ms/1000+5)
    out=r.stdout.strip().splitlines()
    return out[0] if out else 'unknown'
  except Exception:
    return 'unknown'
  finally:
    os.unlink(p)

def discharge(obls,timeout_ms=20000):
  for o in obls:
    o.nq=len(o.queries); t=0.0; st='proved'; solvers=set()
    for q in o.queries:
      r,dt,solver,model=solve_query(q,timeout_ms)
      t+=dt; solvers.add(solver)
      if r=='unsat': continue
      if r=='sat':
        st='refuted?'; o.cex=dict(variant=q.variant,path=q.path,model=model,note=q.note,types=q.types); break
      st='unknown'; o.detail=f"unknown on {q.path}: {q.note}"
    o.status=st; o.time=t; o.solver='+'.join(sorted(solvers-{'trivial'})) or 'trivial'
    o.queries=[]        # drop z3 terms (not picklable)
  return obls
