"""Executable meaning of the sidecar contracts on native Python values.

One evaluator serves (a) native replay of solver counterexamples, (b) the CPython differential /
cover sampling, (c) the bounded stand-ins.  It imports the *real* modules from the repo under test.
No z3 here."""
import ast, copy, importlib, importlib.util, os, sys

def pow2(k):
  if k>(1<<22): raise OverflowError(f"pow2({k}) is too large to evaluate natively")
  return 2**k if k>=0 else 0
NATIVE = dict(
  pow2=pow2, band=lambda x,y: x&y, bor=lambda x,y: x|y, bxor=lambda x,y: x^y,
  modp=lambda x,k: x % pow2(k) if k>=0 else 0, divp=lambda x,k: x // pow2(k) if k>=0 else 0,
  shl=lambda x,k: x*pow2(k) if k>=0 else 0,
  b2i=int, implies=lambda a,b: (not a) or bool(b), iff=lambda a,b: bool(a)==bool(b),
  same=lambda a,b: a is b, isnone=lambda a: a is None, hash_of=lambda *a: hash(tuple(a)),
)

class _Rewrite(ast.NodeTransformer):
  """old(e) -> __old[i] ; isset(o.f) -> hasattr(o,'f') ; fresh(x) -> __fresh(x)"""
  def __init__(s): s.olds=[]
  def visit_Call(s,n):
    if isinstance(n.func,ast.Name) and n.func.id=='old':
      s.olds.append(n.args[0]); i=len(s.olds)-1
      # evaluated in the pre-state with the quantifier-bound names of the enclosing scope visible
      return ast.Call(ast.Name('__oldeval',ast.Load()),[ast.Constant(i),ast.Call(ast.Name('locals',ast.Load()),[],[])],[])
    if isinstance(n.func,ast.Name) and n.func.id=='isset':
      a=n.args[0]
      return ast.Call(ast.Name('__hasslot',ast.Load()),[s.visit(a.value),ast.Constant(a.attr)],[])
    if isinstance(n.func,ast.Name) and n.func.id=='forall_int':
      names=[a.id for a in n.args[:-1]]; body=s.visit(n.args[-1])
      gens=[ast.comprehension(ast.Name(nm,ast.Store()),ast.Name('__irange',ast.Load()),[],0) for nm in names]
      return ast.Call(ast.Name('all',ast.Load()),[ast.GeneratorExp(body,gens)],[])
    if isinstance(n.func,ast.Name) and n.func.id in('forall','exists') and len(n.args)>=2 and all(isinstance(a,ast.Name) for a in n.args[:-1]):
      # object quantifiers range natively over the finite universe __U (every object occurring in the arguments and the result)
      names=[a.id for a in n.args[:-1]]; body=s.visit(n.args[-1])
      gens=[ast.comprehension(ast.Name(nm,ast.Store()),ast.Name('__U',ast.Load()),[],0) for nm in names]
      return ast.Call(ast.Name('all' if n.func.id=='forall' else 'any',ast.Load()),[ast.GeneratorExp(body,gens)],[])
    if isinstance(n.func,ast.Name) and n.func.id=='implies' and len(n.args)==2 and not n.keywords:
      # short-circuit: the consequent (often another quantifier) is only evaluated where the antecedent holds
      return ast.BoolOp(ast.Or(),[ast.UnaryOp(ast.Not(),s.visit(n.args[0])),s.visit(n.args[1])])
    if isinstance(n.func,ast.Name) and n.func.id=='fresh':
      return ast.Call(ast.Name('__fresh',ast.Load()),[s.visit(a) for a in n.args],[])
    return s.generic_visit(n)

def _hasslot(o,f):
  try: object.__getattribute__(o,f); return True
  except AttributeError: return False

def compile_expr(src):
  t=ast.parse(src.strip() if isinstance(src,str) else ast.unparse(src),mode='eval')
  rw=_Rewrite(); t=rw.visit(t); ast.fix_missing_locations(t)
  olds=[compile(ast.fix_missing_locations(ast.Expression(o)),'<old>','eval') for o in rw.olds]
  return compile(t,'<contract>','eval'),olds

def macro_namespace():
  from .symexec_macros import MACROS
  ns=dict(NATIVE)
  for name,(params,body) in MACROS.items():
    code=compile(f"lambda {','.join(params)}: ({body})",'<macro>','eval')
    ns[name]=eval(code,ns)
  return ns

def native_label(v):
  if isinstance(v,slice): return 'slice('+','.join(native_tag(x) for x in (v.start,v.stop,v.step))+')'
  return native_tag(v)

def native_tag(v):
  if isinstance(v,bool) or isinstance(v,int): return 'int'
  if v is None: return 'none'
  if isinstance(v,slice): return 'slice'
  if isinstance(v,str): return 'str'
  if isinstance(v,tuple): return 'tuple'
  n=type(v).__name__
  if isinstance(v,type): return 'bitscls' if any(b.__name__=='Bits' for b in v.__mro__[1:]) else 'class:'+v.__name__
  for b in type(v).__mro__:
    if b.__name__ in NATIVE_CLASS_TAGS: return NATIVE_CLASS_TAGS[b.__name__]
  return NATIVE_CLASS_TAGS.get(n, 'other' if n=='object' else n)
NATIVE_CLASS_TAGS={}

def load_module(repo,rel):
  """import the real module (rel path under repo) - the package is imported from `repo`."""
  if repo not in sys.path: sys.path.insert(0,repo)
  name=rel[:-3].replace('/','.')
  return importlib.import_module(name)

def resolve(repo,key):
  rel,qual=key.split('::')
  m=load_module(repo,rel); o=m
  if '.' in qual and isinstance(getattr(m,qual.split('.')[0],None),dict):
    tab=getattr(m,qual.split('.')[0]); key2=qual.split('.',1)[1]
    for k,v in tab.items():
      if getattr(k,'name',None)==key2 or str(k)==key2: return v
    ns=vars(m)
    for holder in ns.values():
      if hasattr(holder,key2) and getattr(holder,key2) in tab: return tab[getattr(holder,key2)]
    raise KeyError(qual)
  for part in qual.split('.'):
    o=getattr(o,part) if not isinstance(o,property) else o
    if isinstance(o,property): o=o.fget
  return o

def _fields(o):
  out={}
  for k in getattr(type(o),'__slots__',()) or ():
    try: out[k]=object.__getattribute__(o,k)
    except AttributeError: pass
  if hasattr(o,'__dict__'): out.update(o.__dict__)
  return out

def _snap(v,memo=None):
  """structural snapshot (does not go through __deepcopy__, which may drop slots)."""
  memo={} if memo is None else memo
  if isinstance(v,(int,bool,str,type(None),slice,float,type)) or callable(v): return v
  if id(v) in memo: return memo[id(v)]
  if isinstance(v,(bytearray,bytes)): return type(v)(v)
  if isinstance(v,tuple): return tuple(_snap(x,memo) for x in v)
  if isinstance(v,list):
    r=[]; memo[id(v)]=r; r.extend(_snap(x,memo) for x in v); return r
  if isinstance(v,dict):
    r={}; memo[id(v)]=r; r.update({k:_snap(x,memo) for k,x in v.items()}); return r
  if isinstance(v,(set,frozenset)): return type(v)(v)
  try: o=object.__new__(type(v))
  except Exception: return v
  memo[id(v)]=o
  for k,x in _fields(v).items():
    try: object.__setattr__(o,k,_snap(x,memo))
    except Exception: pass
  return o

class CallBudgetExceeded(BaseException):
  """the real function did not return within the per-call wall-clock budget of the native evaluator"""
CALL_BUDGET_S=int(os.environ.get('VERIF_CALL_BUDGET','10'))
def _with_budget(fn,argv):
  import signal, threading, time
  if threading.current_thread() is not threading.main_thread(): return fn(*argv)
  old=signal.getsignal(signal.SIGALRM); remaining=signal.alarm(0); t0=time.time()
  def h(sig,frm): raise CallBudgetExceeded(f"no result after {CALL_BUDGET_S} s")
  signal.signal(signal.SIGALRM,h); signal.alarm(CALL_BUDGET_S)
  try: return fn(*argv)
  finally:
    signal.alarm(0); signal.signal(signal.SIGALRM,old)
    if remaining: signal.alarm(max(1,int(remaining-(time.time()-t0))))

class Outcome:
  def __init__(s,**k): s.__dict__.update(k)
  def __repr__(s): return repr(s.__dict__)

def check_call(contract, args, repo, ns=None):
  """run the real function on native `args` (dict param -> value) and evaluate the contract.
  returns Outcome(case, ok, failed=[...], result/exception)."""
  ns=dict(ns or macro_namespace())
  fn=contract.native(repo) if getattr(contract,'native',None) else resolve(repo,contract.key)
  tags={p:native_label(v) for p,v in args.items()}
  env=dict(ns); env.update(args); env['__U']=_universe(list(args.values()))
  case=None
  for cs in contract.cases:
    if not cs.applies(tags): continue
    code,_=compile_expr(cs.requires)
    try: ok=eval(code,env)
    except Exception as e: ok=False
    if ok: case=cs; break
  if case is None: return Outcome(case=None,ok=True,skipped=True,failed=[],why='no case precondition holds (outside the contract)')
  pre={p:_snap(v) for p,v in args.items()}; pre_ids={id(v) for v in args.values()}
  pre_fields={p:_fields(v) for p,v in args.items() if not isinstance(v,(int,bool,str,type(None),slice,tuple))}
  exc=None; result=None
  params=list(args)
  va=contract.vararg() if hasattr(contract,'vararg') else None
  try:
    if va is not None: result=_with_budget(fn,[args[p] for p in params if p!=va]+list(args[va]))
    else: result=_with_budget(fn,[args[p] for p in params])
  except BaseException as e: exc=e
  failed=[]
  mods=set(case.modifies if case.modifies is not None else contract.modifies)
  def frame(tag):
    for p,f0 in pre_fields.items():
      f1=_fields(args[p])
      for k in set(f0)|set(f1):
        if f"{p}.{k}" in mods: continue
        a=f0.get(k,'<unset>'); b=f1.get(k,'<unset>')
        same = (a is b) or (type(a)==type(b) and isinstance(a,(int,bool,str)) and a==b)
        if not same: failed.append(f"frame{tag}: {p}.{k} changed from {a!r} to {b!r}")
  if exc is not None:
    if case.raises is None:
      failed.append(f"raised {type(exc).__name__}: {exc!s:.120} but the case '{case.name}' promises a result")
    else:
      want=case.raises
      okc = want=='Exception' or any(c.__name__==want for c in type(exc).__mro__)
      if not okc: failed.append(f"raised {type(exc).__name__}, contract requires {want}")
      frame(' (exception path)')
    return Outcome(case=case.name,ok=not failed,failed=failed,exception=f"{type(exc).__name__}: {exc!s:.200}",skipped=False)
  if case.raises is not None and not case.raises_or_ensures:
    failed.append(f"returned {result!r} but the case '{case.name}' requires an exception ({case.raises})")
    return Outcome(case=case.name,ok=False,failed=failed,result=repr(result),skipped=False)
  env2=dict(ns); env2.update(args)
  if getattr(contract,'native_post',None):        # adapt the native result to the contract's abstraction and supply native ghost functions
    result,extra=contract.native_post(args,result); env2.update(extra)
  env2['result']=result; env2['__U']=_universe(list(args.values())+[result])
  env2['__hasslot']=_hasslot; env2['__fresh']=lambda x: id(x) not in pre_ids
  env2['__irange']=range(-2,max([len(v) for v in args.values() if isinstance(v,(bytearray,bytes,list))]+[8])+3)
  for cl in case.clauses():
    code,olds=compile_expr(cl)
    envo=dict(ns); envo.update(pre); envo['__hasslot']=_hasslot
    def _oldeval(i,loc,olds=olds,envo=envo):
      e=dict(envo); e.update({k:v for k,v in loc.items() if k not in envo and not k.startswith('__') and k!='.0'}); return eval(olds[i],e)
    env2['__oldeval']=_oldeval
    try: v=eval(code,env2)
    except TimeoutError: raise          # the worker's wall-clock alarm: not a property of the function under test
    except Exception as e: v=False; failed.append(f"clause `{ast.unparse(cl)}` not evaluable on the result: {type(e).__name__}: {e}"); continue
    if not v: failed.append(f"clause `{ast.unparse(cl)}` is false")
  frame('')
  return Outcome(case=case.name,ok=not failed,failed=failed,result=repr(result),skipped=False)

def _universe(vals):
  out=[]; seen=set()
  def add(x):
    try: hash(x)
    except Exception: return             # unhashable (or not yet initialised) objects cannot be members of the sets / keys of the dicts the clauses speak about
    try: h=(type(x).__name__,x) if isinstance(x,(int,str,bool,type(None))) else id(x)
    except Exception: h=id(x)
    if h not in seen: seen.add(h); out.append(x)
  def walk(v,d=0):
    if d>4: return
    if isinstance(v,dict):
      for k,x in v.items(): add(k); walk(x,d+1)
    elif isinstance(v,(set,frozenset,list,tuple)):
      for x in v:
        if isinstance(x,(set,frozenset,list,dict)): walk(x,d+1)
        else:
          add(x)
          if isinstance(x,tuple): walk(x,d+1)
    elif type(v).__name__=='SimpleNamespace':
      for x in vars(v).values(): walk(x,d+1)
    else: add(v)
  for v in vals: walk(v)
  return out

def build_value(t,name,model,repo,reg):
  """native value of spec type t from a solver model (dict symbol-name -> int/bool)."""
  from .symexec import IntT,BoolT,NoneT,OtherT,StrT,ObjT,SliceT,TupleT
  if isinstance(t,IntT): return int(model.get(name,0))
  if isinstance(t,BoolT): return bool(model.get(name,False))
  if isinstance(t,NoneT): return None
  if isinstance(t,OtherT): return object()
  if isinstance(t,StrT): return str(model.get(name,''))
  if isinstance(t,SliceT): return slice(*[build_value(p,f"{name}.{k}",model,repo,reg) for p,k in zip(t.parts,('start','stop','step'))])
  if isinstance(t,TupleT): return tuple(build_value(p,f"{name}.{i}",model,repo,reg) for i,p in enumerate(t.parts))
  if isinstance(t,ObjT):
    info=reg.classes[t.cls]; m=load_module(repo,info['file']); cls=getattr(m,t.cls)
    o=object.__new__(cls)
    for f in t.fields: object.__setattr__(o,f,int(model.get(f"{name}.{f}",0)))
    return o
  if hasattr(t,'build_native'): return t.build_native(name,model,repo,reg)
  raise ValueError(f"cannot build native value for {t}")

def describe(v):
  if isinstance(v,(int,bool,str,type(None),slice)): return repr(v)
  if isinstance(v,tuple): return '('+', '.join(describe(x) for x in v)+')'
  f=_fields(v)
  if f: return f"{type(v).__name__}<"+', '.join(f"{k}={describe(x)}" for k,x in f.items())+'>'
  return f"<{type(v).__name__} object>"
