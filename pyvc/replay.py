"""Replay files: small scripts under out/replay/ that re-run a counterexample on the real code."""
import json, os, sys

TEMPLATE='''#!/verif/.venv/bin/python
"""Replay of a failed proof obligation on the real code.
obligation : {obligation}
property   : {prop}
run        : /verif/check --replay {path}      (REPO=<dir> to replay against another tree)
"""
import sys, json
sys.path.insert(0, {verif!r})
from pyvc.replay import main
PAYLOAD = json.loads({payload!r})
sys.exit(main(PAYLOAD))
'''

def write_replay(path, payload, verif):
  os.makedirs(os.path.dirname(path),exist_ok=True)
  with open(path,'w') as f:
    f.write(TEMPLATE.format(obligation=payload.get('obligation'),prop=payload.get('property'),path=path,verif=verif,payload=json.dumps(payload)))
  os.chmod(path,0o755)

def main(p):
  """exit 1: violation reproduced on the real code; 0: not reproduced; 2: nothing to run (no failing input known)."""
  repo=os.environ.get('REPO',p.get('repo','/repo'))
  print(f"obligation : {p['obligation']}")
  print(f"property   : {p['property']}")
  print(f"function   : {p.get('contract')}  (lines {p.get('lines')}) in {repo}")
  if p.get('kind')=='no-failing-input-found':
    print("no failing input was found; the obligation was proved for the baseline text of this function and is no longer provable.")
    print("solver output / detail:"); print(p.get('detail'))
    return 2
  if p.get('kind')=='native-args':
    from .driver import load_registry
    from . import runtime
    reg=load_registry(repo); c=reg.contracts[p['contract']]
    args=p['args']
    if getattr(c,'json_args',None): args=c.json_args[1](args)
    print("inputs     : "+', '.join(f"{k}={v!r}" for k,v in args.items()))
    out=runtime.check_call(c,args,repo)
    print(f"case       : {out.case}"); print(f"outcome    : {getattr(out,'result',None) or getattr(out,'exception',None)}")
    if out.skipped or out.ok: print("contract holds on this input: NOT reproduced"); return 0
    for f in out.failed: print("FAILED     : "+f)
    return 1
  if p.get('kind')=='custom':
    from importlib import import_module
    m=import_module(p['module']); return getattr(m,p['entry'])(p,repo)
  from .driver import load_registry
  from . import runtime
  reg=load_registry(repo); c=reg.contracts[p['contract']]
  types=None
  for v in c.variants():
    from .symexec import type_label
    if {k:type_label(t) for k,t in v.items()}==p['types']: types=v; break
  if types is None: print("cannot find the view variant"); return 3
  args={k:runtime.build_value(t,k,p['model'],repo,reg) for k,t in types.items()}
  print("inputs     : "+', '.join(f"{k}={runtime.describe(v)}" for k,v in args.items()))
  out=runtime.check_call(c,args,repo)
  print(f"case       : {out.case}")
  print(f"outcome    : {getattr(out,'result',None) or getattr(out,'exception',None)}")
  if out.skipped: print("input is outside every case precondition"); return 0
  if out.ok: print("contract holds on this input: NOT reproduced"); return 0
  for f in out.failed: print("FAILED     : "+f)
  return 1
