"""Module-level constant tables: execute the real module-level statements that define them with the same
executor on concrete values (complete unrolling of a loop with concrete bounds) and compare every entry
with the table's spec function."""
import ast, time
import z3
from .values import *
from .symexec import State, Executor, const_int, as_int
from .theory import Theory

def verify_tables(reg,rel,tables):
  mod=reg.module(rel)
  names=set(tables)
  class _M:  # module view without the table abstractions
    pass
  ex=Executor(reg,mod); st=State(Theory())
  saved={n:mod.globals.pop(n) for n in list(mod.globals) if n in names}
  obls=[]
  try:
    def mentions(n):
      return any(isinstance(x,ast.Name) and x.id in names for x in ast.walk(n))
    stmts=[n for n in mod.tree.body if isinstance(n,(ast.Assign,ast.For,ast.AugAssign)) and mentions(n)]
    t0=time.time()
    outs=list(ex.block(stmts,st))
    if len(outs)!=1 or outs[0][1] is not None: raise ToolError(f"module-level table code did not execute to a single normal state: {outs}")
    so=outs[0][0]
    for name,(n,spec) in tables.items():
      v=so.env.get(name)
      items=so.heap.get((v.id,'items')) if isinstance(v,Ref) else None
      ok = items is not None and len(items)==n and all(const_int(as_int(x))==spec(i) for i,x in enumerate(items))
      bad=None
      if items is not None and not ok:
        bad=next((i for i,x in enumerate(items) if i>=n or const_int(as_int(x))!=spec(i)),len(items))
      obls.append(dict(name=f"table::{rel}::{name}",kind='table',status='proved' if ok else 'violated',queries=n,time=round(time.time()-t0,3),
                       solver='concrete-execution',cex=None if ok else dict(known=None,types={},model={},origin='concrete execution',args={'index':bad},
                       native=dict(failed=[f"{name}[{bad}] differs from its specification"])),detail=''))
  finally:
    mod.globals.update(saved)
  return obls
