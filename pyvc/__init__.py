"""pyvc - a small verification-condition generator for a subset of Python.

It symbolically executes the *real* source of functions under /repo (parsed
with ast at check time) against sidecar contracts (contracts/*.py) and
discharges the resulting obligations with z3 (cvc5 as second solver).
See /verif/DESIGN.md section 3.
"""
REPO = "/repo"
