"""./check <Cxx> [--tier quick|thorough]   |   ./check --replay <file>   |   ./check --relock   (see DESIGN.md section 4)"""
import sys, os, json, time, argparse, subprocess, importlib
from multiprocessing import Pool
from . import driver, replay as replay_mod

VERIF=driver.VERIF
LOCK=os.path.join(VERIF,'obligations.lock')
KNOWN=os.path.join(VERIF,'known_findings.json')

def load_json(p,default):
  try: return json.load(open(p))
  except FileNotFoundError: return default

def main(argv=None):
  ap=argparse.ArgumentParser()
  ap.add_argument('prop',nargs='?')
  ap.add_argument('--tier',default=os.environ.get('VERIF_TIER','quick'))
  ap.add_argument('--replay')
  ap.add_argument('--relock',action='store_true')
  ap.add_argument('--only',default=None,help='substring filter on contract keys (debugging)')
  ap.add_argument('-v',action='store_true')
  a=ap.parse_args(argv)
  if a.replay:
    return subprocess.call([sys.executable,a.replay])
  repo=os.environ.get('REPO','/repo')
  seed=int(os.environ.get('VERIF_SEED','0') or 0)
  if a.relock:
    return relock(repo,seed)
  if not a.prop: ap.error('property id required')
  os.environ['VERIF_TIER']=a.tier           # the registry (shape / configuration enumeration) and the pool workers read the tier from the environment
  return check_property(a.prop,a.tier,repo,seed,a.only,a.v)

def run_pool(repo,keys,timeout_ms,seed,nsample,known,procs=16,reg=None):
  """one job per (contract, view variant); the first job of a contract also runs the native sampling. Results are merged per contract."""
  from .verify import variant_label
  jobs=[]
  for k in keys:
    vls=[]
    if reg is not None:
      for v in reg.contracts[k].variants():
        vl=variant_label(v)
        if vl not in vls: vls.append(vl)
    if len(vls)<=1: jobs.append((repo,k,timeout_ms,seed,nsample,known))
    else:
      jobs.append((repo,k,timeout_ms,seed,nsample,known,'<none>'))       # sampling only
      for vl in vls: jobs.append((repo,k,timeout_ms,seed,0,known,vl))
  if not jobs: return []
  # one fresh process per job: the z3 context (AST numbering, parameters) a job sees does not depend on which jobs the pool happened to give
  # the same worker before, so a verdict cannot flip with the scheduling of the pool
  with Pool(min(procs,len(jobs)),maxtasksperchild=1) as p: res=p.map(driver.run_contract,jobs,chunksize=1)
  merged={}
  for r in res:
    m=merged.get(r['key'])
    if m is None: merged[r['key']]=r; r['_obl']={o['name']:o for o in r['obligations']}; continue
    m['time']=m.get('time',0)+r.get('time',0)
    if not r['ok']:
      m['ok']=False; m['error']=r['error']; m['trace']=r.get('trace'); m['unsupported']=m.get('unsupported') or r.get('unsupported'); continue
    if r.get('sampling') and not m.get('sampling'): m['sampling']=r['sampling']
    if r.get('info'):
      mi=m.get('info') or {'paths':0,'variants':0}
      m['info']={a:mi.get(a,0)+r['info'].get(a,0) for a in ('paths','variants')}
    for o in r['obligations']:
      e=m['_obl'].get(o['name'])
      if e is None: m['_obl'][o['name']]=o; m['obligations'].append(o); continue
      e['queries']+=o['queries']; e['time']=round(e['time']+o['time'],3)
      rank={'proved':0,'unproved':1,'violated':2}
      if rank.get(o['status'],1)>rank.get(e['status'],1): e['status']=o['status']; e['cex']=o['cex']; e['detail']=o['detail']
      if o['solver']!='trivial' and o['solver'] not in (e['solver'] or ''): e['solver']=o['solver'] if e['solver']=='trivial' else e['solver']+'+'+o['solver']
  out=[]
  for k in keys:
    if k in merged:
      merged[k].pop('_obl',None); out.append(merged[k])
  return out

def property_meta(prop):
  import contracts
  return contracts.PROPERTIES[prop]

def check_property(prop,tier,repo,seed,only=None,verbose=False):
  t0=time.time()
  import contracts
  meta=contracts.PROPERTIES.get(prop)
  if meta is None:
    print(f"CHECKER-ERROR property {prop} has no check (not applicable or not built)"); return 3
  reg=driver.load_registry(repo)
  known=[k for k in load_json(KNOWN,{'findings':[]})['findings'] if k.get('property')==prop]
  lock=load_json(LOCK,{})
  keys=[k for k,c in reg.contracts.items() if prop in c.property_ids and not c.trusted and (only is None or only in k)]
  timeout_ms=20000 if tier=='quick' else 120000
  nsample=meta.get('nsample',(120,1500))[0 if tier=='quick' else 1]
  results=run_pool(repo,keys,timeout_ms,seed,nsample,known,reg=reg)
  # property-specific extra obligations / bounded stand-ins (tables, rtlvc instances, ...)
  extras=[]
  for hook in meta.get('extra',[]):
    modname,fn=hook.split(':')
    extras+=getattr(importlib.import_module(modname),fn)(prop,tier,seed,repo,reg,known)
  # assumptions scan: every unchecked ingredient of the contracts that serve this property goes into the evidence
  meta=dict(meta); scan=[]
  for k in keys:
    c=reg.contracts[k]; short=k.split('::')[-1]
    if c.pure_methods: scan.append(f"{short}: methods taken as pure uninterpreted functions of the objects: {', '.join(sorted(c.pure_methods))}")
    if c.class_predicates: scan.append(f"{short}: class membership of opaque objects taken as pure predicates: {', '.join(sorted(c.class_predicates))}")
    if c.opaque_methods: scan.append(f"{short}: opaque calls (assumed pure, non-raising, typed result): {', '.join(sorted(c.opaque_methods))}")
    if c.exit_lemmas: scan.append(f"{short}: finite-set lemma instances assumed at exit: {'; '.join(c.exit_lemmas)}")
    if c.abstract_lists: scan.append(f"{short}: lists abstracted by their element sets (order-irrelevance assumed, duplicate-freeness proved where claimed): {', '.join(c.abstract_lists if not isinstance(c.abstract_lists,dict) else [f'{a}:{b}' for a,b in c.abstract_lists.items()])}")
    for lk,lp in (c.loops or {}).items():
      if getattr(lp,'lemmas',None): scan.append(f"{short}: loop {lk!r} assumes the lemmas {'; '.join(lp.lemmas)}")
    if c.note and (c.pure_methods or c.opaque_methods or c.class_predicates): scan.append(f"{short}: {c.note}")
  used=set()
  for k in keys:
    for cal,cc in reg.contracts.items():
      if cc.trusted and cal not in used and cc.file==reg.contracts[k].file: used.add(cal); scan.append(f"trusted (assumed) contract of {cal.split('::')[-1]}: {cc.note or 'no body verified'}")
  meta['assumptions']=list(meta.get('assumptions',[]))+scan
  return report(prop,tier,seed,repo,meta,results,extras,known,lock,t0,verbose)

def report(prop,tier,seed,repo,meta,results,extras,known,lock,t0,verbose):
  outdir=os.path.join(VERIF,'out','replay'); os.makedirs(outdir,exist_ok=True)
  violations=[]; known_hits={}; undecided=[]; errors=[]; disagreements=[]
  n_obl=0; n_dis=0; solver_s=0.0; per_solver={}; functions=[]; samples=[]; bounded=[]; evals=0; cover_gaps=[]
  fewer=[]
  allres=list(results)+list(extras)
  for r in allres:
    functions.append(dict(function=r['key'],lines=r.get('lines'),ast_sha256=r.get('ast_hash'),paths=(r.get('info') or {}).get('paths'),
                          obligations=len(r['obligations']),seconds=round(r.get('time',0),2),kind=r.get('kind','pyvc')))
    text_changed = any(lock.get(o['name']) not in (None,r.get('ast_hash')) for o in r['obligations']) or \
                   (not r['obligations'] and any(k.split('::')[1:3]==r['key'].split('::') and v!=r.get('ast_hash') for k,v in lock.items()))
    samp=r.get('sampling')
    if samp:
      evals+=samp['evaluations']
      if r.get('bounded'): bounded.append(dict(function=r['key'],bound=r['bounded'],evaluations=samp['evaluations']))
    if r.get('is_standin') and r['ok']:
      sd=r['standin']; evals+=sd['evaluations']
      bounded.append(dict(function=r['key'],bound=sd['bound'],evaluations=sd['evaluations'],failures=len(sd['failures'])))
      for f in sd['failures'][:8]:
        path=os.path.join(outdir,f"{prop}-{safe(r['key']+'-'+f['args'].get('design',''))}.py")
        payload=dict(property=prop,obligation=f"standin::{r['key']}",contract=r['key'],repo=repo); payload.update(f['custom'])
        replay_mod.write_replay(path,payload,VERIF)
        violations.append((f"standin::{r['key']}",path,False,dict(args=f['args'],native=dict(failed=f['failed']))))
      continue
    if not r['ok']:
      # out of reach / extraction failure: the executable contract over its stated finite domain is the bounded stand-in
      sd=r.get('standin') or samp or {}
      real=[f for f in sd.get('failures',[]) if 'failed' in f]
      if r.get('standin'):
        bounded.append(dict(function=r['key'],bound=sd.get('bound'),evaluations=sd.get('evaluations'),failures=len(real),reason=r['error']))
        evals+=sd.get('evaluations',0)
      newv=False
      for f in real:
        kf=None
        for k in known:
          if k.get('status')=='open' and k.get('contract')==r['key'] and f.get('args_json') is not None:
            try:
              if eval(k['input_class'],dict(f['args_json'])): kf=k; break
            except Exception: pass
        if kf: known_hits.setdefault(kf['id'],kf); continue
        if newv: continue
        newv=True
        path=os.path.join(outdir,f"{prop}-standin-{safe(r['key'])}.py")
        if f.get('args_json') is not None:
          replay_mod.write_replay(path,dict(kind='native-args',property=prop,obligation=f"standin::{r['key']}",contract=r['key'],lines=r.get('lines'),
                                  args=f['args_json'],expected_failure=f['failed'],repo=repo),VERIF)
          violations.append((f"standin::{r['key']}",path,False,dict(args=f['args'],native=dict(failed=f['failed']))))
        else:
          replay_mod.write_replay(path,dict(kind='no-failing-input-found',property=prop,obligation=f"standin::{r['key']}",contract=r['key'],
                                  detail=json.dumps(f,indent=1)),VERIF)
          violations.append((f"standin::{r['key']}",path,True,f))
      if real: continue
      if r.get('standin') and r.get('unsupported') and r.get('expected_out_of_reach'):
        continue       # declared bounded: stand-in passed, reported under coverage.bounded (never counted as proved)
      errors.append(f"{r['key']}: {r['error']}"+(f" (bounded stand-in passed {sd.get('evaluations')} inputs; a function that is out of reach cannot be reported as held)" if r.get('standin') else ''))
      if verbose: print(r.get('trace',''))
      continue
    lk=[k for k in lock if k.split('::',1)[1].startswith(r['key']+'::')] if lock else []
    if lock and not text_changed and len(r['obligations'])<len(lk): fewer.append((r['key'],len(r['obligations']),len(lk)))
    for o in r['obligations']:
      n_obl+=1; solver_s+=o['time']
      for sname in (o['solver'] or '').split('+'): per_solver[sname]=per_solver.get(sname,0)+1
      if o['status']=='proved':
        n_dis+=1
        if len(samples)<6 and o['solver']!='trivial': samples.append(dict(obligation=o['name'],queries=o['queries'],seconds=o['time'],solver=o['solver']))
        continue
      if o['status']=='violated':
        cex=o['cex']
        if not cex.get('known'):
          # open known findings that name this very obligation (class, clause) by a glob pattern: a different clause / class is still reported
          import fnmatch
          for k in known:
            if k.get('status')=='open' and k.get('obligation_match') and fnmatch.fnmatch(o['name'],k['obligation_match']): cex['known']=k; break
        if cex.get('known'):
          known_hits.setdefault(cex['known']['id'],cex['known']); n_dis+=0
          continue
        path=os.path.join(outdir,f"{prop}-{safe(o['name'])}.py")
        payload=dict(property=prop,obligation=o['name'],contract=r['key'],lines=r.get('lines'),types=cex['types'],model=cex['model'],
                     origin=cex['origin'],expected_failure=cex['native'].get('failed'),repo=repo)
        if cex.get('custom'): payload.update(cex['custom'])
        replay_mod.write_replay(path,payload,VERIF)
        violations.append((o['name'],path,False,cex)); continue
      # unproved without a failing input
      was=lock.get(o['name'])
      if was is not None and was!=r.get('ast_hash'):
        path=os.path.join(outdir,f"{prop}-{safe(o['name'])}.py")
        replay_mod.write_replay(path,dict(kind='no-failing-input-found',property=prop,obligation=o['name'],contract=r['key'],lines=r.get('lines'),
                                detail=json.dumps(dict(status=o['status'],solver=o['solver'],detail=o['detail'],candidate_model=o.get('cex')),indent=1,default=str)),VERIF)
        violations.append((o['name'],path,True,o.get('cex')))
      elif was is None and lock and text_changed:
        # a new obligation name on changed text (e.g. a new path): attribute to the change
        path=os.path.join(outdir,f"{prop}-{safe(o['name'])}.py")
        replay_mod.write_replay(path,dict(kind='no-failing-input-found',property=prop,obligation=o['name'],contract=r['key'],lines=r.get('lines'),
                                detail=json.dumps(dict(status=o['status'],solver=o['solver'],detail=o['detail'],candidate_model=o.get('cex')),indent=1,default=str)),VERIF)
        violations.append((o['name'],path,True,o.get('cex')))
      else:
        # the solver left it open (quantified VCs give no model): a contract failure of the real function found by the native sampler
        # of the same contract is the failing input
        nf=[f for f in (samp or {}).get('failures',[]) if 'failed' in f and f.get('args_json') is not None]
        if nf:
          if not any(v[0].startswith('sampled::'+r['key']) for v in violations):
            f=nf[0]; path=os.path.join(outdir,f"{prop}-sampled-{safe(r['key'])}.py")
            replay_mod.write_replay(path,dict(kind='native-args',property=prop,obligation=o['name'],contract=r['key'],lines=r.get('lines'),
                                    args=f['args_json'],expected_failure=f['failed'],repo=repo),VERIF)
            violations.append(('sampled::'+r['key']+' (open obligation '+o['name']+')',path,False,dict(args=f['args'],native=dict(failed=f['failed']))))
        else:
          undecided.append(o['name']+' :: '+str(o.get('detail') or o.get('cex')))
    # differential / cover
    if samp and r['ok']:
      allproved=all(o['status']=='proved' for o in r['obligations'])
      for f in samp['failures']:
        if 'error' in f: errors.append(f"sampling {r['key']}: {f['error']}")
        elif allproved: disagreements.append(f"ENGINE/NATIVE DISAGREEMENT on {r['key']}: every obligation proved but the real function violates the contract on {f}")
      for cs,cnt in samp['per_case'].items():
        if cnt==0: cover_gaps.append(f"{r['key']}::{cs}")
  # a proof that went through a callee contract which is itself violated in this run is not an engine defect
  if disagreements and not violations and not known_hits: errors+=disagreements
  # open known findings that were not re-observed are simply not printed; fixed entries suppress nothing
  for kid,kf in known_hits.items():
    print(f"KNOWN-FINDING: property={prop} {kf['what']}")
  for name,path,nofail,cex in violations:
    print(f"VIOLATION property={prop} replay={path}"+(" no-failing-input-found" if nofail else ""))
    if not nofail and cex: print(f"  obligation {name}\n  input {cex.get('args')}\n  real code: {cex['native'].get('failed')}")
    else: print(f"  obligation {name}")
  for u in undecided: print(f"UNDECIDED obligation={u}")
  for e in errors: print(f"CHECKER-ERROR {e}")
  for k,a,b in fewer: errors.append('x'); print(f"CHECKER-ERROR {k}: {a} obligations generated, {b} in obligations.lock for unchanged text")
  if n_obl==0 and not violations and not (meta.get('bounded_only') and bounded): errors.append('x'); print("CHECKER-ERROR zero obligations generated")
  if cover_gaps and meta.get('require_cover',True):
    print("CHECKER-ERROR cases never reached by the native sampler (vacuity guard): "+', '.join(cover_gaps[:8])); errors.append('x')
  wall=time.time()-t0
  level=meta['level']
  ev=dict(property_id=prop,tier=tier,seed=seed,level=level,wall_s=round(wall,2),violations=len(violations),
    coverage=dict(obligations=n_obl,discharged=n_dis,checker_cmd=f"./check {prop} --tier {tier}",
      trusted_base=meta.get('trusted_base',[])+GLOBAL_TRUSTED,
      samples=samples or [dict(note='no non-trivial obligation')],
      functions_under_contract=functions,solver_seconds=round(solver_s,2),obligations_by_solver=per_solver,
      native_contract_evaluations=evals,bounded=bounded,known_findings_reobserved=sorted(known_hits),
      undecided=undecided,explanation=meta.get('explanation',''),
      evaluations=max(n_obl,1),distinct_nontrivial=max(n_obl-per_solver.get('trivial',0),0),
      rule="one evaluation = one named proof obligation (all its per-path SMT queries); non-trivial = needed a solver call (not closed by simplification)"),
    assumptions=meta.get('assumptions',[])+GLOBAL_ASSUMPTIONS)
  # evidence is about /repo itself; a run against another tree (REPO=...: seeded changes, mutation self-test) writes under out/
  evdir=os.path.join(VERIF,'evidence') if os.path.realpath(repo)=='/repo' else os.path.join(VERIF,'out','evidence-other-tree')
  os.makedirs(evdir,exist_ok=True)
  json.dump(ev,open(os.path.join(evdir,f'{prop}.json'),'w'),indent=1,default=str)
  print(f"{prop}: {n_dis}/{n_obl} obligations discharged over {len(functions)} functions, {evals} native contract evaluations, "
        f"{len(violations)} violations, {len(known_hits)} known findings, {len(undecided)} undecided, {wall:.1f}s")
  if violations: return 1
  if errors: return 3
  if undecided: return 2
  return 0

GLOBAL_TRUSTED=["pyvc symbolic executor and VC generator (/verif/pyvc) - mitigated by native sampling of every contract and the mutation self-test",
  "z3 5.1.0 (cvc5 1.0.3 for z3's unknowns)","CPython 3.12 int semantics = mathematical integers (lemma schemas cross-checked natively each run)",
  "lemma schemas of pyvc/theory.py (ground instances only; cross-checked natively on ~3.5e5 operands per run; arithmetic schemas and non-negative bit-wise schemas proved in Lean (lemmas/Lemmas.lean), the field-insert / clear-mask schemas and negative operands are not)"]
GLOBAL_ASSUMPTIONS=["memory exhaustion / recursion limits ignored","operands are of the types listed in the contract views (int, bool, Bits, None, slice, plain object)",
  "strings are opaque: message texts of exceptions are not verified"]

def safe(s): return ''.join(ch if ch.isalnum() or ch in '-_.' else '_' for ch in s)[-150:]

def relock(repo,seed):
  import contracts
  reg=driver.load_registry(repo)
  keys=[k for k,c in reg.contracts.items() if not c.trusted]
  results=run_pool(repo,keys,20000,seed,0,[],reg=reg)
  lock={}
  for prop,meta in contracts.PROPERTIES.items():
    for hook in meta.get('extra',[]):
      modname,fn=hook.split(':')
      results+=getattr(importlib.import_module(modname),fn)(prop,'quick',seed,repo,reg,[])
  for r in results:
    for o in r['obligations']:
      if o['status']=='proved': lock[o['name']]=r.get('ast_hash')
  json.dump(lock,open(LOCK,'w'),indent=0,sort_keys=True)
  print(f"locked {len(lock)} proved obligations"); return 0

def _big_stack(fn):
  import threading
  sys.setrecursionlimit(400000); threading.stack_size(1024*1024*1024)
  box=[3]
  def run():
    try: box[0]=fn()
    except SystemExit as e: box[0]=e.code
  t=threading.Thread(target=run); t.start(); t.join()
  return box[0]

if __name__=='__main__': sys.exit(_big_stack(main))
