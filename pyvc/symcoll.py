"""Symbolic sets / dicts / framework objects for the executor (DESIGN.md section 3.2).

Elements live in one algebraic sort Obj = atom(id) | pair(Obj,Obj) | ibox(Int); a Python set is an
SMT array Obj->Bool held in a heap cell, a dict is (domain set, value array).  Iteration over a set or
dict is verified for an ARBITRARY unseen element against a sidecar invariant that may mention the ghost
set `seen` - so a proof covers every iteration order and every hash seed.
"""
import ast
import z3
from .values import *
from .symexec import (SpecType, IntT, as_int, is_intlike, Unsupported, ToolError, SPEC_FUNS, SPEC_FORMS, parse_spec, mk_value, type_tag)

Obj=z3.Datatype('Obj')
Obj.declare('atom',('aid',z3.IntSort()))
Obj.declare('pair',('fst',Obj),('snd',Obj))
Obj.declare('ibox',('ival',z3.IntSort()))
Obj.declare('none')
Obj=Obj.create()
SetSort=z3.ArraySort(Obj,z3.BoolSort())
EMPTY=z3.K(Obj,z3.BoolVal(False))

class SetV(Val):
  """immutable set value (contract expressions): array Obj->Bool + element decoding type."""
  __slots__=('arr','elem')
  def __init__(s,arr,elem=None): s.arr=arr; s.elem=elem
  def __repr__(s): return "SetV"

# ---------------------------------------------------------------------------------- element types
class ObjK(SpecType):
  """opaque framework object of some kind (update block, signal, component ...): only identity matters."""
  def __init__(s,kind='obj',maybe_none=None):
    s.kind=kind; s.tag=kind; s.maybe_none=(kind=='obj') if maybe_none is None else maybe_none      # a declared kind is a real object, not None
  def make(s,name,st,fresh):
    c=z3.Const(f"{name}!{st.nextid[0]}" if fresh else name,Obj); st.nextid[0]+=1
    if not fresh: st.syms.append((name,c))
    return Opq(c,s.kind)
class PairOf(SpecType):
  tag='tuple'
  def __init__(s,a,b): s.a=a; s.b=b
class SetOf(SpecType):
  tag='set'
  def __init__(s,elem=None): s.elem=elem or ObjK()
  def make(s,name,st,fresh):
    r=st.alloc('set'); c=z3.Const(f"{name}!{st.nextid[0]}" if fresh else name,SetSort); st.nextid[0]+=1
    st.heap[(r.id,'arr')]=c; st.heap[(r.id,'elem')]=s.elem
    return r
class DictOf(SpecType):
  tag='dict'
  def __init__(s,key=None,val=None,default=None): s.key=key or ObjK(); s.val=val or ObjK(); s.default=default
  def make(s,name,st,fresh):
    r=st.alloc('dict'); sfx=f"!{st.nextid[0]}" if fresh else ''; st.nextid[0]+=1
    vs=SetSort if isinstance(s.val,SetOf) else z3.IntSort() if isinstance(s.val,IntT) else Obj
    st.heap[(r.id,'dom')]=z3.Const(f"{name}.dom{sfx}",SetSort)
    st.heap[(r.id,'val')]=z3.Const(f"{name}.val{sfx}",z3.ArraySort(Obj,vs))
    st.heap[(r.id,'key')]=s.key; st.heap[(r.id,'vt')]=s.val; st.heap[(r.id,'default')]=s.default
    return r
class CompT(SpecType):
  """framework object whose relevant attribute paths are listed: {'_dsl.all_upblks': SetOf(..), 'get_all_update_ff()': ...}"""
  def __init__(s,cls,fields): s.cls=cls; s.fields=fields; s.tag=cls
  def make(s,name,st,fresh):
    r=st.alloc(s.cls)
    st.heap[(r.id,'__ident__')]=z3.Const(f"{name}.__id",Obj)
    for path,t in s.fields.items():
      parts=path.split('.'); cur=r
      for p in parts[:-1]:
        nxt=st.heap.get((cur.id,p))
        if nxt is None:
          nxt=st.alloc(s.cls+'.'+p); st.heap[(cur.id,p)]=nxt
        cur=nxt
      st.heap[(cur.id,parts[-1])]=mk_value(t,f"{name}.{path}",st,fresh)
    return r

def to_obj(v,st):
  if isinstance(v,Opq): return v.t
  if isinstance(v,Tup):
    if len(v.items)==2: return Obj.pair(to_obj(v.items[0],st),to_obj(v.items[1],st))
    if len(v.items)>2: return Obj.pair(to_obj(v.items[0],st),to_obj(Tup(v.items[1:]),st))
  if is_intlike(v): return Obj.ibox(as_int(v))
  if isinstance(v,NoneV): return Obj.none
  if isinstance(v,Ref) and (v.id,'__ident__') in st.heap: return st.heap[(v.id,'__ident__')]
  raise Unsupported(f"collection element {v!r}")

def from_obj(t,typ,st):
  if t.sort()==z3.IntSort(): return I(t)
  if isinstance(typ,PairOf): return Tup([from_obj(Obj.fst(t),typ.a,st),from_obj(Obj.snd(t),typ.b,st)])
  if isinstance(typ,IntT): return I(Obj.ival(t))
  if isinstance(typ,ObjK): return Opq(t,typ.kind)
  return Opq(t,'obj')

def wf(t,typ):
  """well-typedness of an element term (type invariant of the collection)."""
  if isinstance(typ,PairOf): return z3.And(Obj.is_pair(t),wf(Obj.fst(t),typ.a),wf(Obj.snd(t),typ.b))
  if isinstance(typ,IntT): return Obj.is_ibox(t)
  if isinstance(typ,ObjK) and not typ.maybe_none: return t!=Obj.none
  return z3.BoolVal(True)

def setval(v,st):
  """(array, elemtype) of a set-like value."""
  if isinstance(v,SetV): return v.arr,v.elem
  if isinstance(v,Ref) and v.cls in('set','setlist') and (v.id,'arr') in st.heap: return st.heap[(v.id,'arr')],st.heap.get((v.id,'elem'))
  if isinstance(v,Ref) and v.cls=='dict': return st.heap[(v.id,'dom')],st.heap[(v.id,'key')]
  if isinstance(v,DictSlot): return slot_arr(v,st),v.elem
  if isinstance(v,DictV): return v.dom,v.kt
  if isinstance(v,Tup) and not v.items: return EMPTY,None
  raise Unsupported(f"not a set: {v!r}")

class SymColl:
  SETM={'add','discard','remove','update','__ior__','__isub__','__iand__','copy','__len__','__contains__','clear'}
  DICTM={'items','keys','values','update','get','pop','__len__','__contains__','copy','setdefault','append'}
  def handles(s,o,st): return isinstance(o,Ref) and o.cls in('set','dict') and ((o.id,'arr') in st.heap or (o.id,'dom') in st.heap)
  def has_method(s,m): return m in s.SETM or m in s.DICTM
  def contains(s,ex,o,x,st,negate):
    arr,_=setval(o,st); t=z3.Select(arr,to_obj(x,st))
    yield st,B(z3.Not(t) if negate else t)
  def getitem(s,ex,o,idx,st):
    if o.cls!='dict': raise Unsupported("subscript of a set")
    k=to_obj(idx,st); dom=st.heap[(o.id,'dom')]; val=st.heap[(o.id,'val')]; vt=st.heap[(o.id,'vt')]
    def value(st):
      v=z3.Select(st.heap[(o.id,'val')],k)
      if isinstance(vt,SetOf): return DictSlot(o,k,vt.elem)       # a view onto the dict entry (in-place ops write back)
      return from_obj(v,vt,st)
    if ex.spec: yield st,(SetV(z3.Select(val,k),vt.elem) if isinstance(vt,SetOf) else from_obj(z3.Select(val,k),vt,st)); return
    for st1,present in ex.branch(st,z3.Select(dom,k)):
      if present: yield st1,value(st1)
      elif st.heap[(o.id,'default')]=='set':
        st2=st1.fork(); st2.heap[(o.id,'dom')]=z3.Store(dom,k,True); st2.heap[(o.id,'val')]=z3.Store(val,k,EMPTY)
        yield st2,value(st2)
      else: yield st1,Exc('KeyError')
  def setitem(s,ex,o,idx,v,st):
    if o.cls!='dict': raise Unsupported("item store on a set")
    k=to_obj(idx,st); vt=st.heap[(o.id,'vt')]
    st2=st.fork(); st2.heap[(o.id,'dom')]=z3.Store(st.heap[(o.id,'dom')],k,True)
    if isinstance(v,DictSlot) and v.d.id==o.id: yield st2,None; return     # d[k] op= x : already written back
    nv=setval(v,st)[0] if isinstance(vt,SetOf) else as_int(v) if isinstance(vt,IntT) else to_obj(v,st)
    st2.heap[(o.id,'val')]=z3.Store(st.heap[(o.id,'val')],k,nv); yield st2,None
  def delitem(s,ex,o,idx,st):
    k=to_obj(idx,st); dom=st.heap[(o.id,'dom')]
    for st1,present in ex.branch(st,z3.Select(dom,k)):
      if not present: yield st1,('raise',Exc('KeyError')); continue
      st2=st1.fork(); st2.heap[(o.id,'dom')]=z3.Store(dom,k,False); yield st2,None
  def call(s,ex,o,m,args,kw,st):
    if o.cls=='set':
      arr=st.heap[(o.id,'arr')]; et=st.heap[(o.id,'elem')]
      if m=='add': st2=st.fork(); st2.heap[(o.id,'arr')]=z3.Store(arr,to_obj(args[0],st),True); yield st2,NONE
      elif m=='discard': st2=st.fork(); st2.heap[(o.id,'arr')]=z3.Store(arr,to_obj(args[0],st),False); yield st2,NONE
      elif m=='remove':
        k=to_obj(args[0],st)
        for st1,p in ex.branch(st,z3.Select(arr,k)):
          if p: st2=st1.fork(); st2.heap[(o.id,'arr')]=z3.Store(arr,k,False); yield st2,NONE
          else: yield st1,Exc('KeyError')
      elif m in('update','__ior__'):
        a2,_=setval(args[0],st); st2=st.fork(); st2.heap[(o.id,'arr')]=z3.SetUnion(arr,a2); yield st2,(o if m=='__ior__' else NONE)
      elif m=='__isub__':
        a2,_=setval(args[0],st); st2=st.fork(); st2.heap[(o.id,'arr')]=z3.SetDifference(arr,a2); yield st2,o
      elif m=='__iand__':
        a2,_=setval(args[0],st); st2=st.fork(); st2.heap[(o.id,'arr')]=z3.SetIntersect(arr,a2); yield st2,o
      elif m=='copy':
        r=st.alloc('set',{'arr':arr,'elem':et}); yield st,r
      elif m=='clear': st2=st.fork(); st2.heap[(o.id,'arr')]=EMPTY; yield st2,NONE
      elif m=='__contains__': yield from s.contains(ex,o,args[0],st,False)
      elif m=='__len__':
        st2=st.fork()
        for f in card_facts(arr): st2.pc.append(f)
        yield st2,I(CARD(arr))
      else: raise Unsupported(f"set.{m}")
      return
    dom=st.heap[(o.id,'dom')]; val=st.heap[(o.id,'val')]; vt=st.heap[(o.id,'vt')]; kt=st.heap[(o.id,'key')]
    if m in('items','keys','values'): yield st,DictIter(o,m)
    elif m=='update':
      d2=args[0]
      if not (isinstance(d2,Ref) and d2.cls=='dict'): raise Unsupported("dict.update of non-dict")
      dom2=st.heap[(d2.id,'dom')]; val2=st.heap[(d2.id,'val')]
      st2=st.fork(); nv=z3.Const(f"upd!{st.nextid[0]}",val.sort()); st.nextid[0]+=1
      k=z3.Const('k!u',Obj)
      st2.pc.append(z3.ForAll([k],nv[k]==z3.If(z3.Select(dom2,k),val2[k],val[k])))
      st2.heap[(o.id,'dom')]=z3.SetUnion(dom,dom2); st2.heap[(o.id,'val')]=nv; yield st2,NONE
    elif m=='__contains__': yield st,B(z3.Select(dom,to_obj(args[0],st)))
    elif m=='append' and (o.id,'keyexpr') in st.heap:
      # keyed list of sets: nets.append(net) stores the current value of `net` under the key expression
      import ast as _ast
      kv=list(ex.ev(_ast.parse(st.heap[(o.id,'keyexpr')],mode='eval').body,st))[0][1]; k=to_obj(kv,st)
      st.vcs.append(('setlist-nodup',f"append@{ex.cur_line}",list(st.pc),z3.Not(z3.Select(dom,k)),st))
      st2=st.fork(); st2.heap[(o.id,'dom')]=z3.Store(dom,k,True); st2.heap[(o.id,'val')]=z3.Store(val,k,setval(args[0],st)[0]); yield st2,NONE
    elif m=='copy':
      r=st.alloc('dict',{'dom':dom,'val':val,'vt':vt,'key':kt,'default':st.heap[(o.id,'default')]}); yield st,r
    elif m=='get':
      k=to_obj(args[0],st)
      if isinstance(vt,SetOf): raise Unsupported("dict.get on set-valued dict")
      dflt=args[1] if len(args)>1 else NONE
      for st1,p in ex.branch(st,z3.Select(dom,k)):
        yield st1,(from_obj(z3.Select(val,k),vt,st1) if p else dflt)
    else: raise Unsupported(f"dict.{m}")

class DictV(Val):
  """immutable dict value (contract expressions)."""
  def __init__(s,dom,val,kt,vt): s.dom=dom; s.val=val; s.kt=kt; s.vt=vt

class DictSlot(Val):
  """the set stored at d[k] of a set-valued dict; in-place set operators write back into the dict."""
  def __init__(s,d,k,elem): s.d=d; s.k=k; s.elem=elem
class EnumV(Val):
  """enumerate(<abstracted list>)"""
  def __init__(s,inner): s.inner=inner
class DictIter(Val):
  def __init__(s,d,mode): s.d=d; s.mode=mode

def slot_arr(v,st): return z3.Select(st.heap[(v.d.id,'val')],v.k)

class SlotOps:
  """in-place operators on d[k] (set-valued dict entries)."""
  METHODS={'__ior__','__isub__','__iand__','add','discard','__contains__','update','append','extend'}
  def handles(s,o,st): return False
  @staticmethod
  def apply(ex,slot,m,args,st):
    d=slot.d; val=st.heap[(d.id,'val')]; cur=z3.Select(val,slot.k)
    if m in('__ior__','update'): new=z3.SetUnion(cur,setval(args[0],st)[0])
    elif m=='__isub__': new=z3.SetDifference(cur,setval(args[0],st)[0])
    elif m=='__iand__': new=z3.SetIntersect(cur,setval(args[0],st)[0])
    elif m=='add': new=z3.Store(cur,to_obj(args[0],st),True)
    elif m=='append':
      x=to_obj(args[0],st)
      st.vcs.append(('setlist-nodup',f"append@{ex.cur_line}",list(st.pc),z3.Not(z3.Select(cur,x)),st))
      new=z3.Store(cur,x,True)
    elif m=='discard': new=z3.Store(cur,to_obj(args[0],st),False)
    elif m=='extend':
      a2=setval(args[0],st)[0]
      st.vcs.append(('setlist-nodup',f"extend@{ex.cur_line}",list(st.pc),z3.SetIntersect(cur,a2)==EMPTY,st))
      new=z3.SetUnion(cur,a2)
    else: raise Unsupported(f"operation {m} on a dict entry")
    st2=st.fork(); st2.heap[(d.id,'val')]=z3.Store(val,slot.k,new)
    return st2,(slot if m.startswith('__i') else NONE)

# ---------------------------------------------------------------------------------- loop rule
def for_loop(ex,node,it,st):
  """`for x in <set | dict | dict.items()>` under a sidecar invariant (may mention the ghost set `seen`)."""
  spec=ex.loop_spec(node)
  enum=isinstance(it,EnumV)
  if enum: it=it.inner
  if isinstance(it,DictIter): d=it.d; mode=it.mode
  elif isinstance(it,Ref) and it.cls=='dict' and (it.id,'dom') in st.heap: d=it; mode='keys'
  elif isinstance(it,Ref) and it.cls=='set' and (it.id,'arr') in st.heap: d=it; mode='set'
  elif isinstance(it,DictSlot): d=it; mode='slot'
  elif isinstance(it,Ref) and it.cls=='setlist': d=it; mode='set'
  elif isinstance(it,SetV):
    d=st.alloc('set',{'arr':it.arr,'elem':it.elem or ObjK()}); mode='set'
  else: return None
  if spec is None: raise Unsupported(f"loop at line {node.lineno} over a symbolic collection has no invariant in the sidecar")
  return _for_loop(ex,node,d,mode,spec,st,enum)

def _for_loop(ex,node,d,mode,spec,st,enum=False):
  def domain(st):
    if mode=='set': return st.heap[(d.id,'arr')]
    if mode=='slot': return slot_arr(d,st)
    return st.heap[(d.id,'dom')]
  dom0=domain(st)             # iteration is over the collection as it is at loop entry (mutating it during iteration is unsupported)
  prev=st.env.get('seen'); prev_outer=st.env.get('seen_outer'); prev_pre=st.ghost.get('__pre__')
  st=st.fork(); st.ghost['__pre__']=dict(st.heap)
  def with_seen(st,seen):
    st2=st.fork(); st2.env['seen']=SetV(seen,None)
    if prev is not None: st2.env['seen_outer']=prev       # the ghost set of the enclosing for-loop stays addressable
    return st2
  def restore(st):
    st2=st.fork()
    if prev_pre is None: st2.ghost.pop('__pre__',None)
    else: st2.ghost['__pre__']=prev_pre
    for k,v in (('seen',prev),('seen_outer',prev_outer)):
      if v is None: st2.env.pop(k,None)
      else: st2.env[k]=v
    return st2
  # inv-init with seen = {}
  ex.inv_vc('inv-init',node,spec,with_seen(st,EMPTY),None)
  st1=st.fork()
  ex.havoc_locals(st1,{n for n in ex.assigned_names(node.body) if n in st1.env and n not in ex.assigned_names([ast.Expr(node.target)])})
  for loc in spec.modifies: havoc_loc(ex,loc,st1)
  havoc_ghost(spec,st1)
  seen=z3.Const(f"seen!{st1.nextid[0]}",SetSort); st1.nextid[0]+=1
  st1.pc.append(z3.IsSubset(seen,dom0))
  st1=with_seen(st1,seen)
  for cl in spec.invariant: st1.pc.append(ex.spec_bool(cl,st1.env,st1,st1.heap,st1.entry_heap,st1.entry_env))
  for cl in spec.lemmas: st1.pc.append(ex.spec_bool(cl,st1.env,st1,st1.heap,st1.entry_heap,st1.entry_env))
  # the loop-head state after havoc: cells the body changes must have been havoced (= listed in `modifies`)
  head_heap={k:v for k,v in st1.heap.items() if st.heap.get(k) is v or (isinstance(v,z3.ExprRef) and isinstance(st.heap.get(k),z3.ExprRef) and st.heap[k].eq(v))}
  # (a) one more iteration for an arbitrary unseen element
  e=z3.Const(f"elem!{st1.nextid[0]}",Obj); st1.nextid[0]+=1
  isbag=(mode=='set' and isinstance(d,Ref) and st1.heap.get((d.id,'bag')))
  # a list that may hold an element twice visits it twice: the next element is then any member, seen or not
  sa=st1.fork(z3.Select(dom0,e) if isbag else z3.And(z3.Select(dom0,e),z3.Not(z3.Select(seen,e))))
  if mode=='set': et=sa.heap[(d.id,'elem')]; sa.pc.append(wf(e,et)); item=from_obj(e,et,sa)
  elif mode=='slot': sa.pc.append(wf(e,d.elem)); item=from_obj(e,d.elem,sa)
  else:
    kt=sa.heap[(d.id,'key')]; vt=sa.heap[(d.id,'vt')]; sa.pc.append(wf(e,kt)); key=from_obj(e,kt,sa)
    if mode=='keys': item=key
    else:
      v=DictSlot(d,e,vt.elem) if isinstance(vt,SetOf) else from_obj(z3.Select(sa.heap[(d.id,'val')],e),vt,sa)
      item=v if mode=='values' else Tup([key,v])
  if enum: item=Tup([I(sa.fresh_int('index')),item])
  from .symexec import feasible
  if feasible(sa):
    for sb,ctl in ex.assign(node.target,item,sa):
      if ctl is not None: yield sb,ctl; continue
      for sc,c in ex.block(node.body,sb):
        if c is None or c[0]=='continue':
          ex.loop_frame_vc(node,head_heap,sc)
          ex.inv_vc('inv-step',node,spec,with_seen(sc,z3.Store(seen,e,True)),None)
        elif c[0]=='break': yield restore(sc),None
        else: yield sc,c
  # (b) exit: everything seen
  sx=restore(st1.fork(seen==dom0))
  if node.orelse: yield from ex.block(node.orelse,sx)
  else: yield sx,None

def havoc_loc(ex,loc,st):
  """havoc a heap location named by a dotted path from a local, e.g. 's._dsl.all_upblk_hostobj'."""
  parts=loc.split('.'); cur=st.env[parts[0]]; owner=None
  for p in parts[1:]: owner=cur; cur=st.heap[(cur.id,p)]
  if isinstance(cur,I) and owner is not None:        # an int cell at the end of a dotted path (s.a.b._uint)
    st.heap[(owner.id,parts[-1])]=I(st.fresh_int(f"{loc}@loop")); return
  if isinstance(cur,Ref) and cur.cls in('set','setlist'):
    st.heap[(cur.id,'arr')]=z3.Const(f"{loc}@loop!{st.nextid[0]}",SetSort); st.nextid[0]+=1
    if st.heap.get((cur.id,'bag')):
      mu=z3.Const(f"{loc}.multi@loop!{st.nextid[0]}",SetSort); st.nextid[0]+=1
      st.heap[(cur.id,'multi')]=mu; st.pc.append(z3.IsSubset(mu,st.heap[(cur.id,'arr')]))
  elif isinstance(cur,Ref) and cur.cls=='dict':
    st.heap[(cur.id,'dom')]=z3.Const(f"{loc}.dom@loop!{st.nextid[0]}",SetSort)
    st.heap[(cur.id,'val')]=z3.Const(f"{loc}.val@loop!{st.nextid[0]}",st.heap[(cur.id,'val')].sort()); st.nextid[0]+=1
  elif len(parts)==2 and isinstance(st.heap.get((st.env[parts[0]].id,parts[1])),(I,type(None))):
    st.heap[(st.env[parts[0]].id,parts[1])]=I(st.fresh_int(f"{loc}@loop"))
  else: raise Unsupported(f"havoc of {loc}")

def havoc_ghost(spec,st):
  for g in getattr(spec,'ghost',()):
    v=st.env[g]
    if isinstance(v,I): st.env[g]=I(z3.Int(f"{g}@loop!{st.nextid[0]}")); st.nextid[0]+=1; continue
    st.env[g]=type(v)(z3.Const(f"{g}@loop!{st.nextid[0]}",v.arr.sort())); st.nextid[0]+=1

# ---------------------------------------------------------------------------------- contract language
def _dv(d,st):
  if isinstance(d,DictV): return d
  return DictV(st.heap[(d.id,'dom')],st.heap[(d.id,'val')],st.heap[(d.id,'key')],st.heap[(d.id,'vt')])
def _sf_dom(s,args,st):
  d=_dv(args[0],st); return SetV(d.dom,d.kt)
def _sf_at(s,args,st):
  """at(D,k): entry of a set-valued dict as a set, empty if absent (defaultdict view)."""
  d=_dv(args[0],st); k=to_obj(args[1],st)
  return SetV(z3.If(z3.Select(d.dom,k),z3.Select(d.val,k),EMPTY),d.vt.elem)
def _sf_get(s,args,st):
  d=_dv(args[0],st); k=to_obj(args[1],st)
  return from_obj(z3.Select(d.val,k),d.vt,st)
def _sf_subset(s,args,st): return B(z3.IsSubset(setval(args[0],st)[0],setval(args[1],st)[0]))
def _sf_disjoint(s,args,st): return B(z3.SetIntersect(setval(args[0],st)[0],setval(args[1],st)[0])==EMPTY)
def _sf_empty(s,args,st): return SetV(EMPTY,None)
SPEC_FUNS.update({'dom':_sf_dom,'at':_sf_at,'getv':_sf_get,'subset':_sf_subset,'disjoint':_sf_disjoint,'emptyset':_sf_empty})

def _form_forall(s,e,st,exists=False):
  # forall(x, body) / forall(x, y, body): bound variables range over all objects
  names=[a.id for a in e.args[:-1]]; body=e.args[-1]
  vs=[z3.Const(f"{n}!q{st.nextid[0]}",Obj) for n in names]; st.nextid[0]+=1
  st2=st.fork()
  for n,v in zip(names,vs): st2.env[n]=Opq(v,'obj')
  rs=list(s.ev(body,st2))
  if len(rs)!=1: raise ToolError("branching inside quantifier body")
  t=list(s.truth(rs[0][1],st2))[0][1]
  yield st,B(z3.Exists(vs,t) if exists else z3.ForAll(vs,t))
SPEC_FORMS['forall']=_form_forall
SPEC_FORMS['exists']=lambda s,e,st: _form_forall(s,e,st,True)

def install(reg):
  """hook the collection semantics into an executor registry."""
  reg.handlers.append(SymColl()); reg.handlers.append(ByteArr()); reg.handlers.append(SetList())
  reg.loop_handlers.append(lambda ex,node,it,st: for_loop(ex,node,it,st) if it is not None else None)

# ---------------------------------------------------------------------------------- bytearray
class ByteArrayT(SpecType):
  """a bytearray of symbolic length and contents: heap cells 'arr' (Int -> Int, every element in [0,256)) and 'len'."""
  tag='bytearray'
  def make(s,name,st,fresh):
    r=st.alloc('bytearray'); sfx=f"!{st.nextid[0]}" if fresh else ''; st.nextid[0]+=1
    st.heap[(r.id,'arr')]=z3.Const(f"{name}.arr{sfx}",z3.ArraySort(z3.IntSort(),z3.IntSort()))
    ln=z3.Int(f"{name}.len{sfx}"); st.heap[(r.id,'len')]=I(ln); st.pc.append(ln>=0)
    return r
  def sample(s,rng,n,repo,reg):
    return bytearray(rng.getrandbits(8) for _ in range(rng.choice([8,16,40])))

class ConstInt(SpecType):
  """an int parameter enumerated over concrete values (loops bounded by it unroll completely)."""
  def __init__(s,k): s.k=k; s.tag='int'
  def make(s,name,st,fresh): return I(s.k)
  def build_native(s,name,model,repo,reg): return s.k
  def sample(s,rng,n,repo,reg): return s.k

class ByteArr:
  METHODS={'__len__'}
  def handles(s,o,st): return isinstance(o,Ref) and o.cls=='bytearray' and (o.id,'arr') in st.heap
  def has_method(s,m): return m in s.METHODS
  def _index(s,ex,o,idx,st):
    """yield (st, int term | Exc) for a valid element index (negative indices wrap as in Python)."""
    if isinstance(idx,Ref):
      for st1,r in ex.call_method(idx,'__index__',[],st):
        if isinstance(r,Exc): yield st1,r
        else: yield from s._index(ex,o,r,st1)
      return
    if not is_intlike(idx): yield st,Exc('TypeError','bytearray index'); return
    i=as_int(idx); n=as_int(st.heap[(o.id,'len')])
    for st1,ok in ex.branch(st,z3.And(i>=0,i<n)):
      if ok: yield st1,i; continue
      for st2,neg in ex.branch(st1,z3.And(i<0,i>=-n)):
        if neg: yield st2,i+n
        else: yield st2,Exc('IndexError','bytearray index out of range')
  def getitem(s,ex,o,idx,st):
    for st1,i in s._index(ex,o,idx,st):
      if isinstance(i,Exc): yield st1,i; continue
      v=z3.Select(st1.heap[(o.id,'arr')],i)
      st2=st1.fork(z3.And(v>=0,v<256))          # type invariant of bytearray elements
      yield st2,I(v)
  def setitem(s,ex,o,idx,v,st):
    def store(st,i,val):
      for st1,ok in ex.branch(st,z3.And(val>=0,val<256)):
        if not ok: yield st1,('raise',Exc('ValueError','byte must be in range(0, 256)')); continue
        st2=st1.fork(); st2.heap[(o.id,'arr')]=z3.Store(st1.heap[(o.id,'arr')],i,val); yield st2,None
    for st1,i in s._index(ex,o,idx,st):
      if isinstance(i,Exc): yield st1,('raise',i); continue
      if isinstance(v,Ref):
        for st2,r in ex.call_method(v,'__index__',[],st1):
          if isinstance(r,Exc): yield st2,('raise',r)
          else: yield from store(st2,i,as_int(r))
      elif is_intlike(v): yield from store(st1,i,as_int(v))
      else: yield st1,('raise',Exc('TypeError','an integer is required'))
  def contains(s,ex,o,x,st,negate): raise Unsupported("membership in bytearray")
  def call(s,ex,o,m,args,kw,st):
    if m=='__len__': yield st,st.heap[(o.id,'len')]
    else: raise Unsupported(f"bytearray.{m}")

def _sf_byte(s,args,st):
  """byteat(arr, i): element i of a bytearray in the current heap (contract expressions)."""
  a=args[0]; return I(z3.Select(st.heap[(a.id,'arr')],as_int(args[1])))
def _sf_blen(s,args,st): return st.heap[(args[0].id,'len')]
SPEC_FUNS.update({'byteat':_sf_byte,'blen':_sf_blen})
from . import runtime as _rt
_rt.NATIVE['byteat']=lambda a,i: a[i] if 0<=i<len(a) else 0
_rt.NATIVE['blen']=lambda a: len(a)
_rt.NATIVE.update(dom=lambda d:set(d.keys()), at=lambda d,k:d.get(k,set()), getv=lambda d,k:d.get(k), subset=lambda a,b:set(a)<=set(b),
                  disjoint=lambda a,b: not(set(a)&set(b)), emptyset=lambda: set())

def _form_forall_int(s,e,st):
  names=[a.id for a in e.args[:-1]]; body=e.args[-1]
  vs=[z3.Int(f"{n}!q{st.nextid[0]}") for n in names]; st.nextid[0]+=1
  st2=st.fork()
  for n,v in zip(names,vs): st2.env[n]=I(v)
  rs=list(s.ev(body,st2))
  if len(rs)!=1: raise ToolError("branching inside quantifier body")
  t=list(s.truth(rs[0][1],st2))[0][1]
  yield st,B(z3.ForAll(vs,t))
SPEC_FORMS['forall_int']=_form_forall_int

# ================================================================================== extensions for scheduler code (Kahn loops)
CARD=z3.Function('card',SetSort,z3.IntSort())
IDF=z3.Function('idf',Obj,z3.IntSort())            # id() of a live object
UNID=z3.Function('unid',z3.IntSort(),Obj)         # its inverse on the range of id()
def id_axiom():
  x=z3.Const('x!id',Obj); return z3.ForAll([x],UNID(IDF(x))==x,patterns=[IDF(x)])
WIT=z3.Function('witness',SetSort,Obj)       # some member of a non-empty finite set

def card_facts(S):
  """ground facts about the cardinality of a finite set term S (Python sets are finite)."""
  return [CARD(S)>=0,(CARD(S)==0)==(S==EMPTY),z3.Implies(CARD(S)>=1,z3.Select(S,WIT(S))),z3.Implies(CARD(S)==1,S==z3.Store(EMPTY,WIT(S),True))]
def card_add(S,x):
  S2=z3.Store(S,x,True)
  return [z3.If(z3.Select(S,x),CARD(S2)==CARD(S),CARD(S2)==CARD(S)+1)]+card_facts(S2)
def card_del(S,x):
  S2=z3.Store(S,x,False)
  return [z3.If(z3.Select(S,x),CARD(S2)==CARD(S)-1,CARD(S2)==CARD(S))]+card_facts(S2)

class Mod(Val):
  """an imported module object (only a few attributes are modelled)."""
  def __init__(s,name): s.name=name
  def __repr__(s): return f"Mod({s.name})"

class SetList:
  """a duplicate-free Python list whose order the code does not depend on (shuffled / consumed from an arbitrary end):
  represented by its element set.  append(x) carries the obligation x not in list (so duplicate-freeness is proved, not assumed)."""
  METHODS={'append','pop','__len__','__contains__','copy','put','get','empty'}
  def handles(s,o,st): return isinstance(o,Ref) and o.cls=='setlist'
  def has_method(s,m): return m in s.METHODS
  def contains(s,ex,o,x,st,negate):
    t=z3.Select(st.heap[(o.id,'arr')],to_obj(x,st)); yield st,B(z3.Not(t) if negate else t)
  def getitem(s,ex,o,idx,st):
    # l[0] / l[-1] of a list in arbitrary order: some member (IndexError when empty)
    if not (is_intlike(idx) and z3.is_int_value(z3.simplify(as_int(idx))) and z3.simplify(as_int(idx)).as_long() in(0,-1)):
      raise Unsupported("indexing a list that is abstracted by its element set (only [0] / [-1])")
    arr=st.heap[(o.id,'arr')]
    for st1,empty in ex.branch(st,arr==EMPTY):
      if empty: yield st1,Exc('IndexError','list index out of range'); continue
      e=z3.Const(f"item!{st1.nextid[0]}",Obj); st1.nextid[0]+=1
      st2=st1.fork(z3.Select(arr,e)); yield st2,from_obj(e,st2.heap.get((o.id,'elem')),st2)
  def setitem(s,ex,o,idx,v,st): raise Unsupported("item store on a list that is abstracted by its element set")
  def call(s,ex,o,m,args,kw,st):
    arr=st.heap[(o.id,'arr')]
    bag=st.heap.get((o.id,'bag'),False)
    if m=='put': m='append'
    if m=='get': m='pop'
    if m=='empty': yield st,B(arr==EMPTY); return
    if m=='append':
      x=to_obj(args[0],st)
      et0=st.heap.get((o.id,'elem'))
      if (et0 is None or (isinstance(et0,ObjK) and et0.kind=='obj')) and isinstance(args[0],Tup) and len(args[0].items)==2:
        # first tuple appended to a list of undeclared element type: remember the component types (ints stay ints when taken out again)
        st=st.fork(); st.heap[(o.id,'elem')]=PairOf(*[IntT() if is_intlike(a) else ObjK() for a in args[0].items])
      if bag:           # duplicates allowed: the abstraction records which elements occur ('arr') and which may occur more than once ('multi')
        mu=st.heap.get((o.id,'multi'),EMPTY)
        st2=st.fork(); st2.heap[(o.id,'arr')]=z3.Store(arr,x,True); st2.heap[(o.id,'multi')]=z3.If(z3.Select(arr,x),z3.Store(mu,x,True),mu); yield st2,NONE; return
      st.vcs.append(('setlist-nodup',f"append@{ex.cur_line}",list(st.pc),z3.Not(z3.Select(arr,x)),st))
      st2=st.fork(); st2.heap[(o.id,'arr')]=z3.Store(arr,x,True)
      for f in card_add(arr,x): st2.pc.append(f)
      yield st2,NONE
    elif m=='pop':
      if args and not (is_intlike(args[0]) and z3.is_int_value(z3.simplify(as_int(args[0]))) and z3.simplify(as_int(args[0])).as_long() in(0,-1)):
        raise Unsupported("pop(i) on an abstracted list (only the ends, i in {0,-1}, are order-irrelevant)")
      for st1,empty in ex.branch(st,arr==EMPTY):
        if empty: yield st1,Exc('IndexError','pop from empty list'); continue
        e=z3.Const(f"popped!{st1.nextid[0]}",Obj); st1.nextid[0]+=1
        if bag:         # the popped element may or may not occur again in the rest of the list
          mu=st1.heap.get((o.id,'multi'),EMPTY)
          again=z3.Const(f"again!{st1.nextid[0]}",z3.BoolSort()); still=z3.Const(f"still!{st1.nextid[0]}",z3.BoolSort()); st1.nextid[0]+=1
          st2=st1.fork(z3.And(z3.Select(arr,e),z3.Implies(again,z3.Select(mu,e)),z3.Implies(still,again)))
          st2.heap[(o.id,'arr')]=z3.If(again,arr,z3.Store(arr,e,False)); st2.heap[(o.id,'multi')]=z3.If(still,mu,z3.Store(mu,e,False))
          yield st2,from_obj(e,st2.heap.get((o.id,'elem')),st2); continue
        st2=st1.fork(z3.Select(arr,e)); st2.heap[(o.id,'arr')]=z3.Store(arr,e,False)
        for f in card_del(arr,e): st2.pc.append(f)
        yield st2,from_obj(e,st2.heap.get((o.id,'elem')),st2)
    elif m=='__len__' and bag: raise Unsupported("len() of a list abstracted as a bag")
    elif m=='__len__':
      st2=st.fork()
      for f in card_facts(arr): st2.pc.append(f)
      yield st2,I(CARD(arr))
    elif m=='__contains__': yield from s.contains(ex,o,args[0],st,False)
    elif m=='copy': yield st,st.alloc('setlist',{'arr':arr,'elem':st.heap.get((o.id,'elem'))})
    else: raise Unsupported(f"list.{m} on an abstracted list")

def new_setlist(st,arr=None,elem=None):
  return st.alloc('setlist',{'arr':EMPTY if arr is None else arr,'elem':elem or ObjK()})

def _sf_card(s,args,st):
  a,_=setval(args[0],st) if not (isinstance(args[0],Ref) and args[0].cls=='setlist') else (st.heap[(args[0].id,'arr')],None)
  return I(CARD(a))
def _sf_elems(s,args,st):
  o=args[0]
  if isinstance(o,Ref) and o.cls=='setlist': return SetV(st.heap[(o.id,'arr')],st.heap.get((o.id,'elem')))
  return SetV(setval(o,st)[0],None)
def _sf_idof(s,args,st): return I(IDF(to_obj(args[0],st)))
def _sf_unid(s,args,st): return Opq(UNID(as_int(args[0])),'obj')
def _sf_fst(s,args,st): return I(Obj.ival(Obj.fst(to_obj(args[0],st))))
def _sf_snd(s,args,st): return I(Obj.ival(Obj.snd(to_obj(args[0],st))))
def _sf_isintpair(s,args,st):
  t=to_obj(args[0],st); return B(z3.And(Obj.is_pair(t),Obj.is_ibox(Obj.fst(t)),Obj.is_ibox(Obj.snd(t))))
SPEC_FUNS.update({'idof':_sf_idof,'unid':_sf_unid,'fst':_sf_fst,'snd':_sf_snd,'is_int_pair':_sf_isintpair})
def declare_pure_method(name,arity,kind):
  """an uninterpreted total function of `arity` objects with result kind 'bool' | 'obj' | 'set'; usable as a spec function and (through the
  contract option pure_methods) as the meaning of the method call x.name(args...)."""
  rs={'bool':z3.BoolSort(),'obj':Obj,'set':SetSort}[kind]
  uf=z3.Function('pm_'+name,*([Obj]*arity),rs)
  def sf(s,args,st):
    t=uf(*[to_obj(a,st) for a in args[:arity]])
    return B(t) if kind=='bool' else Opq(t,'obj') if kind=='obj' else SetV(t,ObjK())
  SPEC_FUNS[name]=sf
  return uf
def _sf_pfst(s,args,st): return I(Obj.ival(Obj.fst(to_obj(args[0],st))))
def _sf_psnd(s,args,st): return Opq(Obj.snd(to_obj(args[0],st)),'obj')
def _sf_isipair(s,args,st):
  t=to_obj(args[0],st); return B(z3.And(Obj.is_pair(t),Obj.is_ibox(Obj.fst(t))))
SPEC_FUNS.update({'pfst':_sf_pfst,'psnd':_sf_psnd,'is_keyed_pair':_sf_isipair})
def _sf_dups(s,args,st):
  o=args[0]; return SetV(st.heap.get((o.id,'multi'),EMPTY),st.heap.get((o.id,'elem')))
SPEC_FUNS.update({'card':_sf_card,'elems':_sf_elems,'dups':_sf_dups})
_rt.NATIVE.update(card=lambda s: len(set(s)), elems=lambda l: set(l))
