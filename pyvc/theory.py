"""Integer / bit-operation theory used by the VC generator.

pow2, band, bor, bxor are uninterpreted; what the prover knows about them is a
finite set of *ground instances* of the lemma schemas in LEMMAS below, generated
for the terms that actually occur in a VC (no quantifiers reach the solver, so
answers are sat/unsat, not unknown).  Every schema is a theorem about Python's
unbounded ints; each is (a) cross-checked natively on random/boundary operands
by `crosscheck_lemmas` at every run; (b) part of them is proved in Lean (lemmas/Lemmas.lean; DESIGN.md A.2 lists which are not).

The schemas are written once, over an abstract algebra `A`, and are evaluated
both over z3 terms (Z3Alg) and over Python ints (PyAlg).
"""
import itertools, random
import z3

# ----------------------------------------------------------------------------- algebras
class Z3Alg:
  def __init__(s):
    s.f_pow2 = z3.Function('pow2', z3.IntSort(), z3.IntSort())
    s.f_band = z3.Function('band', z3.IntSort(), z3.IntSort(), z3.IntSort())
    s.f_bor  = z3.Function('bor',  z3.IntSort(), z3.IntSort(), z3.IntSort())
    s.f_bxor = z3.Function('bxor', z3.IntSort(), z3.IntSort(), z3.IntSort())
    s.f_divp = z3.Function('divp', z3.IntSort(), z3.IntSort(), z3.IntSort())
    s.f_modp = z3.Function('modp', z3.IntSort(), z3.IntSort(), z3.IntSort())
    s.f_mulp = z3.Function('mulp', z3.IntSort(), z3.IntSort(), z3.IntSort())
  def mulp(s,x,k):
    # x * 2^k : linear when either side is a numeral, otherwise uninterpreted (no nonlinear term ever reaches the solver)
    k=z3.simplify(k) if isinstance(k,z3.ExprRef) else z3.IntVal(k)
    x=z3.simplify(x) if isinstance(x,z3.ExprRef) else z3.IntVal(x)
    if z3.is_int_value(k) and 0<=k.as_long()<=4096: return x*z3.IntVal(2**k.as_long())
    if z3.is_int_value(x): return z3.simplify(x*s.pow2(k))
    return s.f_mulp(x,k)
  def pow2(s,k):
    k = z3.simplify(k) if isinstance(k,z3.ExprRef) else z3.IntVal(k)
    if z3.is_int_value(k) and 0 <= k.as_long() <= 4096: return z3.IntVal(2**k.as_long())
    return s.f_pow2(k)
  # & | ^ are commutative (schema 'comm', cross-checked): operands are always put in one canonical order
  @staticmethod
  def _ord(x,y):
    x=x if isinstance(x,z3.ExprRef) else z3.IntVal(x); y=y if isinstance(y,z3.ExprRef) else z3.IntVal(y)
    return (x,y) if x.get_id()<=y.get_id() else (y,x)
  def band(s,x,y): return s.f_band(*s._ord(x,y))
  def bor(s,x,y):  return s.f_bor(*s._ord(x,y))
  def bxor(s,x,y): return s.f_bxor(*s._ord(x,y))
  def bor2(s,a,b,rhs):
    # conclusion `a|b == rhs` stated for both operand orders: a or b may be a fresh arithmetic expression that is only
    # semantically equal to the operand of the code's term, so the canonical (id-based) order need not coincide
    return z3.And(s.f_bor(a,b)==rhs, s.f_bor(b,a)==rhs)
  def div(s,x,y): return x / y          # SMT div: floor for positive divisor
  def mod(s,x,y): return x % y
  def divp(s,x,k):
    # x div 2^k / x mod 2^k: uninterpreted for symbolic k (everything the prover knows comes from the schemas), native for numerals
    k=z3.simplify(k) if isinstance(k,z3.ExprRef) else z3.IntVal(k)
    if z3.is_int_value(k) and 0<=k.as_long()<=4096:
      d=2**k.as_long()
      # (x div a) div b == x div (a*b) for positive numerals (schema div-div, cross-checked): keeps nested shifts flat
      while isinstance(x,z3.ArithRef) and z3.is_app(x) and x.decl().kind()==z3.Z3_OP_IDIV and z3.is_int_value(x.arg(1)) and x.arg(1).as_long()>0:
        d*=x.arg(1).as_long(); x=x.arg(0)
      return x / z3.IntVal(d)
    return s.f_divp(x,k)
  def modp(s,x,k):
    k=z3.simplify(k) if isinstance(k,z3.ExprRef) else z3.IntVal(k)
    if z3.is_int_value(k) and 0<=k.as_long()<=4096: return x % z3.IntVal(2**k.as_long())
    return s.f_modp(x,k)
  def imp(s,a,b): return z3.Implies(a,b)
  def and_(s,*a): return z3.And(*a)
  def or_(s,*a): return z3.Or(*a)
  def eq(s,a,b): return a == b
  def ite(s,c,a,b): return z3.If(c,a,b)

class PyAlg:
  def pow2(s,k): return 2**k if k>=0 else 1   # schemas guard k>=0; value for k<0 irrelevant
  def band(s,x,y): return x & y
  def bor(s,x,y): return x | y
  def bxor(s,x,y): return x ^ y
  def div(s,x,y): return x // y if y>0 else 0  # schemas only divide by pow2(..) > 0
  def mod(s,x,y): return x % y if y>0 else 0
  def divp(s,x,k): return x // 2**k if k>=0 else 0
  def modp(s,x,k): return x % 2**k if k>=0 else 0
  def mulp(s,x,k): return x * 2**k if k>=0 else 0
  def bor2(s,a,b,rhs): return (a|b)==rhs
  def imp(s,a,b): return (not a) or b
  def and_(s,*a): return all(a)
  def or_(s,*a): return any(a)
  def eq(s,a,b): return a == b
  def ite(s,c,a,b): return a if c else b

# ----------------------------------------------------------------------------- lemma schemas
# name -> (arity description, function(A, *ints) -> formula).   All variables range over Z.
def _pw_pos(A,k):      return A.and_(A.imp(k>=0, A.and_(A.pow2(k)>=1, A.pow2(k)>=k+1)), A.imp(A.eq(k,0),A.eq(A.pow2(k),1)), A.imp(A.eq(k,1),A.eq(A.pow2(k),2)), A.imp(k>=1, A.pow2(k)>=2))
def _pw_mono(A,j,k):   return A.imp(A.and_(j>=0, j<k), 2*A.pow2(j) <= A.pow2(k))
def _pw_succ(A,j,k):   return A.imp(A.and_(j>=0, A.eq(k,j+1)), A.eq(A.pow2(k), 2*A.pow2(j)))
def _pw_add(A,i,j,k):  return A.imp(A.and_(i>=0, j>=0, A.eq(k,i+j)), A.eq(A.pow2(k), A.mulp(A.pow2(i),j)))
def _and_mask(A,x,y,k):return A.imp(A.and_(k>=0, A.eq(y, A.pow2(k)-1)), A.eq(A.band(x,y), A.modp(x,k)))
def _and_mask_l(A,x,y,k):return A.imp(A.and_(k>=0, A.eq(x, A.pow2(k)-1)), A.eq(A.band(x,y), A.modp(y,k)))
def _and_range(A,x,y): return A.and_(A.imp(y>=0, A.and_(0<=A.band(x,y), A.band(x,y)<=y)),
                                     A.imp(x>=0, A.and_(0<=A.band(x,y), A.band(x,y)<=x)))
def _and_clear(A,x,y,lo,hi,w):
  return A.imp(A.and_(lo>=0, w>=0, A.eq(hi,lo+w), A.eq(y, -(A.pow2(hi)-A.pow2(lo))-1)),
               A.eq(A.band(x,y), x - A.mulp(A.modp(A.divp(x,lo),w),lo)))
def _and_clearbit(A,x,y,k):
  return A.imp(A.and_(k>=0, A.eq(y, -A.pow2(k)-1)),
               A.eq(A.band(x,y), x - A.mulp(A.modp(A.divp(x,k),1),k)))
def _and_one(A,x,y):   return A.imp(A.eq(y,1), A.eq(A.band(x,y), A.modp(x,1)))
def _or_range(A,x,y,k):return A.imp(A.and_(k>=0, 0<=x, x<A.pow2(k), 0<=y, y<A.pow2(k)),
                                    A.and_(A.bor(x,y)<A.pow2(k)))
def _or_lower(A,x,y):  return A.imp(A.and_(x>=0,y>=0), A.and_(A.bor(x,y)>=x, A.bor(x,y)>=y, A.bor(x,y)<=x+y))
def _or_field(A,x,y,lo,w,hi):
  # x has no bit in [lo,hi), y has bits only in [lo,hi)  =>  x|y == x+y
  return A.imp(A.and_(lo>=0, w>=0, A.eq(hi,lo+w), x>=0, y>=0,
                      A.eq(A.modp(A.divp(x,lo),w),0),
                      A.eq(A.modp(y,lo),0), y<A.pow2(hi)),
               A.eq(A.bor(x,y), x+y))
def _or_bit(A,x,y,k):
  return A.imp(A.and_(k>=0, x>=0, A.eq(A.modp(A.divp(x,k),1),0), A.or_(A.eq(y,0),A.eq(y,A.pow2(k)))),
               A.eq(A.bor(x,y), x+y))
def _xor_range(A,x,y,k):return A.imp(A.and_(k>=0, 0<=x, x<A.pow2(k), 0<=y, y<A.pow2(k)),
                                    A.and_(0<=A.bxor(x,y), A.bxor(x,y)<A.pow2(k)))
def _shl_mod(A,x,k,j): return A.and_(A.imp(A.and_(j>=0, j<=k), A.eq(A.modp(A.mulp(x,k), j), 0)), A.imp(k>=0, A.and_(A.eq(A.divp(A.mulp(x,k),k),x), A.imp(x>=0,A.mulp(x,k)>=x), A.imp(x<=0,A.mulp(x,k)<=x), A.imp(A.eq(x,1),A.eq(A.mulp(x,k),A.pow2(k))))), A.imp(A.eq(k,0),A.eq(A.mulp(x,k),x)))
def _mod_small(A,x,k): return A.imp(A.and_(k>=0, 0<=x, x<A.pow2(k)), A.and_(A.eq(A.modp(x,k),x), A.eq(A.divp(x,k),0)))
def _mod_wrap(A,x,k):
  P=A.pow2(k)
  return A.imp(k>=0, A.and_(A.imp(A.and_(-P<=x, x<0), A.and_(A.eq(A.modp(x,k), x+P), A.eq(A.divp(x,k),-1))),
                            A.imp(A.and_(P<=x, x<2*P), A.and_(A.eq(A.modp(x,k), x-P), A.eq(A.divp(x,k),1)))))
def _divmod(A,x,k):
  P=A.pow2(k)
  return A.imp(k>=0, A.and_(A.eq(x, A.mulp(A.divp(x,k),k)+A.modp(x,k)), 0<=A.modp(x,k), A.modp(x,k)<P,
                            A.imp(x>=0, A.and_(A.divp(x,k)>=0, A.divp(x,k)<=x)), A.imp(x<0, A.divp(x,k)<0),
                            A.imp(A.eq(k,0), A.and_(A.eq(A.divp(x,k),x), A.eq(A.modp(x,k),0)))))
def _div_lt(A,x,k,j,i):
  # 0 <= x < 2^i and i == j+k  =>  x div 2^k < 2^j
  return A.imp(A.and_(k>=0, j>=0, A.eq(i,j+k), 0<=x, x<A.pow2(i)), A.divp(x,k) < A.pow2(j))
def _div_ge(A,x,k):
  # x >= 2^k  <=>  x div 2^k >= 1   (for x >= 0)
  return A.imp(A.and_(k>=0, x>=0), A.eq(x>=A.pow2(k), A.divp(x,k)>=1))

def _comm(A,x,y): return A.and_(A.eq(A.band(x,y),A.band(y,x)), A.eq(A.bor(x,y),A.bor(y,x)), A.eq(A.bxor(x,y),A.bxor(y,x)))
def _insert(A,bor,x,lo,w,m):
  cleared = x - A.mulp(A.modp(A.divp(x,lo),w),lo)
  return A.imp(A.and_(lo>=0, w>=0, x>=0, 0<=m, m<A.pow2(w)), A.bor2(cleared, A.mulp(m,lo), cleared + A.mulp(m,lo)))
def _insert_range(A,x,lo,w,n,m):
  return A.imp(A.and_(lo>=0, w>=0, lo+w<=n, 0<=x, x<A.pow2(n), 0<=m, m<A.pow2(w)),
               A.and_(0 <= x - A.mulp(A.modp(A.divp(x,lo),w),lo) + A.mulp(m,lo), x - A.mulp(A.modp(A.divp(x,lo),w),lo) + A.mulp(m,lo) < A.pow2(n)))
def _shl_or(A,bor,v,k,u):
  return A.imp(A.and_(k>=0, v>=0, 0<=u, u<A.pow2(k)), A.bor2(A.mulp(v,k),u, A.mulp(v,k)+u))
def _cat_range(A,v,a,k,u,t):
  return A.imp(A.and_(a>=0, k>=0, A.eq(t,a+k), 0<=v, v<A.pow2(a), 0<=u, u<A.pow2(k)), A.and_(0<=A.mulp(v,k)+u, A.mulp(v,k)+u<A.pow2(t)))
def _pw_num(A,k,c): return A.and_(A.imp(A.and_(A.eq(k,c),c>=0), A.eq(A.pow2(k),2**max(c,0))), A.imp(A.and_(k>=c,c>=0), A.pow2(k)>=2**max(c,0)), A.imp(A.and_(k>=0,k<=c), A.pow2(k)<=2**max(c,0)))
def _div_div(A,x,a,b): return A.imp(A.and_(a>=0,b>=0), A.eq(A.divp(A.divp(x,a),b), A.divp(x,a+b)))
LEMMAS = {
 'comm':(2,_comm), 'pw-num':(2,_pw_num), 'div-div':(3,lambda A,x,lo,w:_div_div(A,x,lo,w)),
 'pw-pos':(1,_pw_pos), 'pw-mono':(2,_pw_mono), 'pw-succ':(2,_pw_succ), 'pw-add':(3,_pw_add),
 'and-mask':(3,_and_mask), 'and-mask-l':(3,_and_mask_l), 'and-range':(2,_and_range), 'and-clear':(5,_and_clear),
 'and-clearbit':(3,_and_clearbit), 'and-one':(2,_and_one),
 'or-range':(3,_or_range), 'or-lower':(2,_or_lower), 'or-field':(5,_or_field), 'or-bit':(3,_or_bit),
 'xor-range':(3,_xor_range), 'shl-mod':(3,_shl_mod), 'mod-small':(2,_mod_small), 'mod-wrap':(2,_mod_wrap),
 'divmod':(2,_divmod), 'div-lt':(4,_div_lt), 'div-ge':(2,_div_ge),
 'insert':(4,lambda A,x,lo,w,m:_insert(A,A.bor,x,lo,w,m)), 'insert-range':(5,_insert_range),
 'shl-or':(3,lambda A,v,k,u:_shl_or(A,A.bor,v,k,u)), 'cat-range':(5,_cat_range),
}

def crosscheck_lemmas(seed=0, nrand=3000):
  """Evaluate every schema over Python ints: all small operands plus random / boundary ones.
  Returns (evaluations, failures) - a failure is a defect of this tool, never of /repo."""
  A=PyAlg(); rng=random.Random(seed); ev=0; fails=[]
  small=list(range(-5,10))
  def pool():
    k=rng.choice([0,1,2,3,7,8,31,32,33,63,64,65,127,128,1022,1023])
    c=rng.choice([0,1,-1,2**k,2**k-1,2**k+1,-(2**k),rng.getrandbits(k+1),-rng.getrandbits(k+1),rng.getrandbits(2*k+2)])
    return c
  def kpool(): return rng.choice([-1,0,1,2,3,4,5,7,8,9,16,31,32,33,64,100])
  for name,(ar,f) in LEMMAS.items():
    import inspect
    params=list(inspect.signature(f).parameters)[1:]
    # exhaustive small
    doms=[small if p in('x','y','v','m','u') else list(range(-1,6)) for p in params]
    if name=='pw-num': doms=[list(range(-1,12)),list(range(-1,12))]
    tot=1
    for d in doms: tot*=len(d)
    it = itertools.product(*doms) if tot<=60000 else (tuple(rng.choice(d) for d in doms) for _ in range(60000))
    for args in it:
      ev+=1
      if not f(A,*args): fails.append((name,args))
    for _ in range(nrand):
      args=[pool() if p in('x','y','v','m','u') else kpool() for p in params]
      # make guarded relations likely to hold
      if name in('and-clear','or-field') and rng.random()<0.8:
        d=dict(zip(params,args)); d['hi']=d['lo']+d['w']
        if name=='and-clear' and d['lo']>=0 and d['w']>=0: d['y']=-(2**d['hi']-2**d['lo'])-1
        if name=='or-field' and d['lo']>=0 and d['w']>=0:
          m=rng.getrandbits(d['w']) if d['w']>0 else 0; d['y']=m<<d['lo']
          xx=abs(d['x']); d['x']= xx & ~(((1<<d['w'])-1)<<d['lo'])
        args=[d[p] for p in params]
      if name in('insert','insert-range','shl-or','cat-range') and rng.random()<0.9:
        d=dict(zip(params,args))
        for kk in ('lo','w','k','a'):
          if kk in d: d[kk]=abs(d[kk])%40
        if 'x' in d: d['x']=abs(d['x'])
        if 'v' in d: d['v']=abs(d['v'])
        if 'm' in d: d['m']=rng.getrandbits(d['w']) if d['w']>0 else 0
        if 'u' in d: d['u']=rng.getrandbits(d['k']) if d['k']>0 else 0
        if name=='insert-range': d['n']=d['lo']+d['w']+rng.choice([0,0,1,5]); d['x']=rng.getrandbits(d['n']) if d['n']>0 else 0
        if name=='cat-range': d['t']=d['a']+d['k']; d['v']=rng.getrandbits(d['a']) if d['a']>0 else 0
        args=[d[p] for p in params]
      if name in('pw-add','div-lt') and rng.random()<0.8:
        d=dict(zip(params,args))
        if name=='pw-add': d['k']=d['i']+d['j']
        else:
          d['i']=d['j']+d['k']; d['x']=rng.getrandbits(max(d['i'],0)) if d['i']>0 else 0
        args=[d[p] for p in params]
      if name in('and-mask','and-mask-l','and-clearbit','or-bit') and rng.random()<0.8:
        d=dict(zip(params,args)); k=max(d['k'],0); d['k']=k
        if name=='and-mask': d['y']=2**k-1
        if name=='and-mask-l': d['x']=2**k-1
        if name=='and-clearbit': d['y']=-(2**k)-1
        if name=='or-bit': d['x']=abs(d['x']) & ~(1<<k); d['y']=rng.choice([0,1<<k])
        args=[d[p] for p in params]
      ev+=1
      if not f(A,*args): fails.append((name,tuple(args)))
  return ev,fails

# ----------------------------------------------------------------------------- ground instantiation
class Theory:
  """collects the pow2 exponents and bit-op terms created while a path is executed / a goal is built and
  produces ground lemma instances for them."""
  def __init__(s):
    s.A = Z3Alg()
    s.K = []      # exponent terms
    s.ands=[]; s.ors=[]; s.xors=[]; s.shls=[]; s.dm=[]   # (x,y) / (x,k)
    s._seen=set()
  def _add(s,lst,key):
    h=(id(lst),)+tuple(k.get_id() for k in key)
    if h in s._seen: return
    s._seen.add(h); lst.append(key)
  def pow2(s,k):
    k = z3.simplify(k)
    r = s.A.pow2(k)
    if not z3.is_int_value(r): s._add(s.K,(k,))
    return r
  # & | ^ are commutative (schema 'comm', cross-checked): operands are put in a canonical order
  def _ord(s,x,y): return (x,y) if x.get_id()<=y.get_id() else (y,x)
  def band(s,x,y):
    # x & (2^k-1) with a numeral mask is x mod 2^k (schema and-mask with a concrete k): stays linear
    for a,b in ((x,y),(y,x)):
      b=z3.simplify(b)
      if z3.is_int_value(b):
        c=b.as_long()
        if c>=0 and (c&(c+1))==0: return a % z3.IntVal(c+1) if c>0 else z3.IntVal(0)
    x,y=s._ord(x,y); s._add(s.ands,(x,y)); return s.A.band(x,y)
  def bor(s,x,y):  x,y=s._ord(x,y); s._add(s.ors,(x,y));  return s.A.bor(x,y)
  def bxor(s,x,y): x,y=s._ord(x,y); s._add(s.xors,(x,y)); return s.A.bxor(x,y)
  def shl(s,x,k):
    k=z3.simplify(k); x=z3.simplify(x)
    if z3.is_int_value(k) or z3.is_int_value(x):
      if not z3.is_int_value(k): s.pow2(k)
      if not z3.is_int_value(x): s._add(s.shls,(x,k))
      return s.A.mulp(x,k)
    s.pow2(k); s._add(s.shls,(x,k)); return s.A.mulp(x,k)
  def shr(s,x,k):  return s.divp(x,k)
  def divp(s,x,k):
    k=z3.simplify(k)
    if not z3.is_int_value(k): s.pow2(k); s._add(s.dm,(x,k))
    return s.A.divp(x,k)
  def modp(s,x,k):
    k=z3.simplify(k)
    if not z3.is_int_value(k): s.pow2(k); s._add(s.dm,(x,k))
    return s.A.modp(x,k)

  @staticmethod
  def _sums(lo,w,hi):
    """is hi == lo + w a linear identity (independent of path conditions)?  Triple-indexed schemas are only instantiated
    for such triples: the code computes the width as stop-start, so nothing is lost and the instance set stays small."""
    d=z3.simplify(lo+w-hi)
    return z3.is_int_value(d) and d.as_long()==0

  def _cbor(s,a,b):
    a,b=s._ord(a,b); return s.A.bor(a,b)

  def instances(s, level=2, numerals=()):
    """ground instances of the lemma schemas for the terms of this VC.  level 1: the cheap idiom-level core; level 2: everything.
    numerals: integer constants of the VC; for an exponent term k they give  k == c  =>  pow2(k) == 2^c  (schema pw-num)."""
    A=s.A; out=[]; heavy=[]
    K=[k[0] for k in s.K]
    for k in K:
      for c in numerals:
        if 0<=c<=1100:
          out.append(z3.Implies(k==c, s.A.f_pow2(k)==z3.IntVal(2**c)))
          out.append(z3.Implies(k>=c, s.A.f_pow2(k)>=z3.IntVal(2**c))); out.append(z3.Implies(z3.And(k>=0,k<=c), s.A.f_pow2(k)<=z3.IntVal(2**c)))
    Z=z3.IntVal(0); ONE=z3.IntVal(1)
    for k in K: out.append(_pw_pos(A,k))
    for j,k in itertools.permutations(K,2):
      out.append(_pw_mono(A,j,k)); out.append(_pw_succ(A,j,k))
    for i,j,k in itertools.product(K,K,K):
      if k.get_id()!=i.get_id() and k.get_id()!=j.get_id() and i.get_id()<=j.get_id() and s._sums(i,j,k): out.append(_pw_add(A,i,j,k))
    dm=list(s.dm); seen={(a.get_id(),b.get_id()) for a,b in dm}
    def need(x,k):
      if z3.is_int_value(k): return
      key=(x.get_id(),k.get_id())
      if key not in seen: seen.add(key); dm.append((x,k))
    triples=[(lo,w,hi) for lo,w,hi in itertools.product(K+[Z],K+[ONE],K) if lo.get_id()!=hi.get_id() and s._sums(lo,w,hi)]
    xs=[]; xseen=set()
    for (x,y) in s.ands:
      for t in (x,y):
        if not z3.is_int_value(t) and t.get_id() not in xseen: xseen.add(t.get_id()); xs.append(t)
    for (x,y) in s.ands:
      for lo,w,hi in triples: need(x,lo); need(A.divp(x,lo),w)
      for k in K: need(x,k); need(y,k)          # and-mask introduces modp(x,k)
    for (x,y) in s.ands:
      out.append(_and_range(A,x,y)); out.append(_and_one(A,x,y)); out.append(_and_one(A,y,x))
      for k in K:
        out.append(_and_mask(A,x,y,k)); out.append(_and_mask_l(A,x,y,k)); out.append(_and_clearbit(A,x,y,k)); out.append(_and_clearbit(A,y,x,k))
      for lo,w,hi in triples:
        out.append(_and_clear(A,x,y,lo,hi,w)); out.append(_and_clear(A,y,x,lo,hi,w))
    # insertion of a field / a bit:  (x with field cleared) | (m << lo)
    for (m,lo) in s.shls:
      for x in xs:
        for w in K+[ONE]:
          need(x,lo); need(A.divp(x,lo),w)
          out.append(_insert(A,s._cbor,x,lo,w,m))
          for n in K:
            if n.get_id()!=lo.get_id() and n.get_id()!=w.get_id(): out.append(_insert_range(A,x,lo,w,n,m))
    for (x,y) in s.ors:
      out.append(_or_lower(A,x,y))
      for k in K: out.append(_or_range(A,x,y,k))
      for (v,k) in s.shls:
        t=A.mulp(v,k)
        for a,b in ((x,y),(y,x)):
          if a.get_id()==t.get_id() or z3.simplify(a).get_id()==z3.simplify(t).get_id():
            out.append(_shl_or(A,s._cbor,v,k,b))
            for aw in K+[Z]:
              for tot in K:
                if s._sums(aw,k,tot): out.append(_cat_range(A,v,aw,k,b,tot))
      for lo,w,hi in triples:
        heavy.append(_or_field(A,x,y,lo,w,hi)); heavy.append(_or_field(A,y,x,lo,w,hi))
    for (x,y) in s.xors:
      for k in K: out.append(_xor_range(A,x,y,k))
    for (x,k) in s.shls:
      for j in K: out.append(_shl_mod(A,x,k,j))
    for (x,k) in dm:
      out.append(_divmod(A,x,k)); out.append(_mod_small(A,x,k)); out.append(_mod_wrap(A,x,k)); out.append(_div_ge(A,x,k))
      for j,i in itertools.product(K,K):
        if i.get_id()!=j.get_id() and s._sums(j,k,i): heavy.append(_div_lt(A,x,k,j,i))
    return out if level==1 else out+heavy

# ----------------------------------------------------------------------------- refutation theory
class RefuteTheory(Theory):
  """exact semantics on a bounded window, used only to *find* counterexamples (never to prove):
  pow2(k) is exact for 0 <= k <= W, band/bor/bxor are computed on W-bit two's-complement vectors.
  The window restrictions are added as side constraints (they only shrink the search space)."""
  def __init__(s,W):
    Theory.__init__(s); s.W=W; s.side=[]
  def pow2(s,k):
    k=z3.simplify(k)
    if z3.is_int_value(k): return s.A.pow2(k)
    s.side.append(z3.And(k>=-1,k<=s.W))
    e=z3.IntVal(0)        # value for k<0: irrelevant (guarded by the code), fixed to 0 like the native evaluator
    for i in range(s.W,-1,-1): e=z3.If(k==i,z3.IntVal(2**i),e)
    return e
  def _bv(s,x):
    W=s.W+2
    s.side.append(z3.And(x>=-(2**(W-1)),x<2**(W-1)))
    return z3.Int2BV(x,W)
  def band(s,x,y): return z3.BV2Int(s._bv(x)&s._bv(y),True)
  def bor(s,x,y):  return z3.BV2Int(s._bv(x)|s._bv(y),True)
  def bxor(s,x,y): return z3.BV2Int(s._bv(x)^s._bv(y),True)
  def shl(s,x,k): return x*s.pow2(k)
  def divp(s,x,k): return x / s.pow2(k)
  def modp(s,x,k): return x % s.pow2(k)
  def instances(s,level=2,numerals=()): return list(s.side)
